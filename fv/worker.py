"""Shard worker: runs the cases of one shard in a fresh process against the repository working tree.
usage: python -m fv.worker <PROP> <shard.json> <out.json>"""
import importlib
import json
import signal
import sys
import time
import traceback
import gc


class CaseTimeout(Exception):
    pass


def _alarm(signum, frame):
    raise CaseTimeout()


def jsonable(o):
    import numpy as np
    if isinstance(o, dict):
        return {str(k): jsonable(v) for k, v in o.items()}
    if isinstance(o, (list, tuple, set, frozenset)):
        return [jsonable(v) for v in o]
    if isinstance(o, (np.integer,)):
        return int(o)
    if isinstance(o, (np.floating,)):
        return float(o)
    if isinstance(o, np.ndarray):
        return jsonable(o.tolist())
    if isinstance(o, complex):
        return [o.real, o.imag]
    if isinstance(o, (np.bool_,)):
        return bool(o)
    if isinstance(o, (str, int, float, bool)) or o is None:
        return o
    return repr(o)


def run_one(mod, case, timeout):
    t0 = time.time()
    signal.signal(signal.SIGALRM, _alarm)
    signal.alarm(int(timeout))
    from fv import contracts
    n_h = len(contracts.HARNESS_ERRORS)
    try:
        res = mod.run_case(case)
        if len(contracts.HARNESS_ERRORS) > n_h:
            res = {"status": "inconclusive", "reason": "monitor-error", "trace": contracts.HARNESS_ERRORS[-1],
                   "findings": res.get("findings", []), "counters": res.get("counters", {})}
    except CaseTimeout:
        res = {"status": "inconclusive", "reason": "case-timeout"}
    except MemoryError:
        res = {"status": "inconclusive", "reason": "memory"}
    except Exception as exc:  # a bug of the harness itself must never look like 'held' or like a violation
        res = {"status": "inconclusive", "reason": "harness-error:" + type(exc).__name__,
               "trace": traceback.format_exc()[-1500:]}
        # ... but a crash INSIDE the package (innermost frame in forsys, a builtin error type, on an input every property
        # module builds as valid) in a call the module did not guard itself is the package's failure, not the harness'
        fr_ = traceback.extract_tb(exc.__traceback__)
        crash = (TypeError, KeyError, IndexError, AttributeError, AssertionError, ZeroDivisionError, FloatingPointError,
                 UnboundLocalError, NameError, RecursionError)
        if fr_ and isinstance(exc, crash):
            inner = fr_[-1].filename.replace("\\", "/")
            if "/forsys/" in inner and "/fv/" not in inner:
                res = {"status": "violated", "findings": [{
                    "mech": "package-raises", "clause": "the call returns a result for a valid input",
                    "detail": {"exc": repr(exc)[:200], "where": f"{inner.rsplit('/', 1)[-1]}:{fr_[-1].name}:{fr_[-1].lineno}",
                               "tb": traceback.format_exc()[-700:]}}]}
    finally:
        signal.alarm(0)
    res.setdefault("findings", [])
    res.setdefault("counters", {})
    res.setdefault("metrics", {})
    res.setdefault("hist", {})
    res["case"] = case
    res["wall"] = round(time.time() - t0, 3)
    return res


def main(argv):
    prop, shard_path, out_path = argv[:3]
    from fv import env  # noqa: F401  (bootstraps forsys from the working tree)
    from fv import reach as freach
    mod = importlib.import_module(f"fv.props.{prop.lower()}")
    shard = json.load(open(shard_path))
    r = freach.Reach()
    anchors = getattr(mod, "anchors", None)
    if anchors:
        r.watch(*anchors())
    r.start()
    out = []
    timeout = shard.get("case_timeout", 120)
    for i, case in enumerate(shard["cases"]):
        out.append(jsonable(run_one(mod, case, timeout)))
        if i % 20 == 19:
            gc.collect()
    r.stop()
    json.dump({"results": out, "reach": r.report(), "reach_totals": r.total_lines(),
               "unraisable_total": len(env.UNRAISABLE)}, open(out_path, "w"))


if __name__ == "__main__":
    main(sys.argv[1:])
