"""C13 Velocities are finite differences of tracked vertices over real elapsed time.

Monitors: icontract post-conditions on the real TimeSeries.calculate_velocity and ForceMatrix.set_velocity_matrix, and a
check of ForSys.get_system_velocity_per_frame, all against reference values computed from the OBSERVED correspondence
(its correctness is C12's subject), current vertex positions and the frames' time stamps."""
import numpy as np

ID = "C13"
RULE = ("series of 2..6 frames with arbitrary increasing time stamps (spanning 1e-2..1e2), displacement fields inside the "
        "tracking bounds, independent renumbering per frame, frames with a vanished border cell; velocity of every interface "
        "end point and of some interior vertices at every frame; b_matrix in {none, velocity}, adimensional_velocity on/off, "
        "velocity_normalization values. distinct = (cells, frames, time pattern, cm, options); non-trivial = a moving junction"
        ' Added after the seeded rounds: id 0, velocity_normalization 0, systems built with an angle limit before the system velocity is asked for.'
        ' Frames dictionaries filled in another order than their keys.')
MIN_DECISIVE = {"quick": 100, "thorough": 1500}
REQUIRED_COUNTERS = ["post:calculate_velocity", "velocity:forward", "velocity:backward", "velocity:missing-partner",
                     "post:set_velocity_matrix", "system-velocity:checked", "rhs:static-zero"]
TECHNIQUE = "runtime contracts on calculate_velocity / set_velocity_matrix with reference finite differences from the observed map"
CASE_TIMEOUT = {"quick": 400, "thorough": 1200}
ASSUMPTIONS = ["positions are read from the live vertex objects (the optional centre-of-mass shift mutates them before any velocity is computed)"]
CTX = {}


def anchors():
    from fv import env  # noqa
    import forsys as fs
    from forsys import time_series as ts, fmatrix
    return [ts.TimeSeries.calculate_velocity, ts.TimeSeries.get_point_id_by_map, fmatrix.ForceMatrix.set_velocity_matrix,
            fs.ForSys.get_system_velocity_per_frame]


def cases(seed, tier):
    q = tier == "quick"
    out = [{"fam": "series", "seed": [seed, 13, i], "count": 2} for i in range(72 if q else 700)]
    out += [{"fam": "vanish", "seed": [seed, 13, 10 ** 5 + i], "count": 2} for i in range(16 if q else 150)]
    if tier != "quick":
        out.append({"fam": "suite", "seed": [seed, 0, 0]})
    return out


_MON = None


def _partner(ts_, point, t):
    """(partner id or None, partner frame index) from the raw per-step maps, written independently of get_point_id_by_map"""
    n = len(ts_.time_series)
    if t == n - 1:
        m = ts_.mapping[t - 1]
        cands = [k for k, v in m.items() if v == point]
        return (cands[-1] if cands else None), t - 1
    m = ts_.mapping[t]
    return m.get(point), t + 1


def _install():
    global _MON
    if _MON is not None:
        return _MON
    from fv import contracts
    from forsys import time_series as ts, fmatrix
    mon = contracts.Monitor()
    inst = contracts.Installed()

    def velocity_is_finite_difference(self, point, initial_time, result):
        mon.count("post:calculate_velocity")
        t = initial_time
        n = len(self.time_series)
        p, tp = _partner(self, point, t)
        v0 = self.time_series[t].vertices[point]
        res = np.asarray(result, float)
        if res.shape != (2,) or not np.all(np.isfinite(res)):
            mon.fail("velocity-shape", "velocity is a finite 2-vector", got=repr(result)[:80])
            return True
        if p is None or p not in self.time_series[tp].vertices:
            mon.count("velocity:missing-partner")
            if np.any(res != 0):
                mon.fail("velocity-missing", "a vertex with no tracked partner gets velocity zero", got=res.tolist())
            return True
        v1 = self.time_series[tp].vertices[p]
        dt = self.time_series[tp].time - self.time_series[t].time
        ref = np.array([v1.x - v0.x, v1.y - v0.y]) / dt
        mon.count("velocity:backward" if t == n - 1 else "velocity:forward")
        tol = 1e-12 * (np.abs(ref).max() + (abs(v0.x) + abs(v0.y) + abs(v1.x) + abs(v1.y)) / abs(dt)) + 1e-300
        if np.abs(res - ref).max() > tol:
            mon.fail("velocity-value", "velocity = (position of the tracked partner - own position) / (difference of the two "
                     "time stamps), partner = successor (predecessor at the last frame)", got=res.tolist(), ref=ref.tolist(),
                     t=t, last=bool(t == n - 1), dt=float(dt))
        return True

    def rhs_rows_hold_own_velocity(self, timeseries, result, _KWARGS):
        c = CTX.get("cur")
        if c is None:
            return True
        mon.count("post:set_velocity_matrix")
        kw = dict(_KWARGS)
        if c.get("caller_kw") is not None:
            # inside ForSys.solve_stress: what counts are the options the USER gave to the solve, whatever the solver hands on
            for k_ in ("b_matrix", "adimensional_velocity", "velocity_normalization"):
                if k_ in c["caller_kw"]:
                    kw[k_] = c["caller_kw"][k_]
                else:
                    kw.pop(k_, None)
            mon.count("rhs:through-solve")
        b, avg = result
        b = np.asarray(b, float)
        m = self.matrix.shape[0]
        if b.shape != (m, 1):
            mon.fail("rhs-shape", "one right-hand side per equation", shape=list(b.shape), m=m)
            return True
        mode = kw.get("b_matrix", None)
        if not (timeseries and mode == "velocity"):
            if mode is None or not timeseries:
                mon.count("rhs:static-zero")
                if np.any(b != 0):
                    mon.fail("rhs-static", "all right-hand sides are zero in static mode")
            return True
        t = self.frame.frame_id
        vel = {}
        for vid in self.map_vid_to_row:
            velf = c.get("velocity") or timeseries.calculate_velocity
            vel[vid] = np.asarray(velf(vid, t), float)
        speeds = [np.linalg.norm(v) for v in vel.values()]
        adim = kw.get("adimensional_velocity", False)
        mean_speed = float(np.mean(speeds)) if (speeds and adim) else 1.0
        norm = kw.get("velocity_normalization", 1)
        if abs(avg - mean_speed) > 1e-12 * max(1.0, abs(mean_speed)):
            mon.fail("mean-speed", "the divisor is the mean junction speed of the frame iff adimensional", got=float(avg),
                     ref=mean_speed, adimensional=adim)
        for vid, row in self.map_vid_to_row.items():
            ref = vel[vid] / mean_speed * norm
            got = np.array([b[row, 0], b[row + 1, 0]])
            if np.abs(got - ref).max() > 1e-12 * (np.abs(ref).max() + 1e-300) + 1e-300:
                mon.fail("rhs-row", "each used junction's velocity components are the right-hand sides of its own x- and "
                         "y-equation", vid=vid, row=row, got=got.tolist(), ref=ref.tolist(), adimensional=adim, norm=norm)
                break
        return True

    inst.ensure(ts.TimeSeries, "calculate_velocity", velocity_is_finite_difference)
    inst.ensure(fmatrix.ForceMatrix, "set_velocity_matrix", rhs_rows_hold_own_velocity)
    _MON = mon
    return mon


def _one(rng, fam, mon, sigs, hist):
    from fv import env, dyn
    from fv.gen import scen, series
    import forsys as fs
    at0 = scen.base_tissue(rng, ["vor", "arc"][int(rng.integers(2))], ncells=int(rng.integers(8, 40)))
    at0, _ = scen.maybe_sub(rng, at0, p=0.3, min_cells=4)
    nfr = int(rng.integers(2, 7))
    cm = bool(rng.random() < 0.3)
    ats = dyn.random_series(rng, at0, nfr, frac=0.3 if cm else 0.6)
    if fam == "vanish" and len(ats[0].cells) > 4:
        border = [c for c in ats[0].cells if any(len(ats[0].E[k]) == 1 for k in ats[0].E if c in ats[0].E[k])]
        t_v = int(rng.integers(0, nfr))
        c = border[int(rng.integers(len(border)))]
        comp = max(ats[t_v].components([x for x in ats[t_v].cells if x != c]), key=len)
        ats[t_v] = ats[t_v].sub(comp)
    tp = ["unit", "uneven", "scaled"][int(rng.integers(3))]
    if tp == "unit":
        times = np.arange(nfr, dtype=float)
    elif tp == "uneven":
        times = np.cumsum(rng.uniform(0.1, 3.0, nfr))
    else:
        times = (np.cumsum(rng.uniform(0.1, 3.0, nfr)) + rng.uniform(-5, 5)) * 10 ** rng.uniform(-2, 2)
    with env.Capture() as cap:
        s = dyn.build(rng, ats, times, k=int(rng.integers(0, 4)), relabel=True)
        frames_in = s.frames
        if rng.random() < 0.3:
            order_ = [int(x) for x in rng.permutation(nfr)]
            frames_in = {t_: s.frames[t_] for t_ in order_}      # dictionary filled in another order than its keys
            hist["frames-dict-out-of-order"] = hist.get("frames-dict-out-of-order", 0) + 1
        try:
            solver = fs.ForSys(frames_in, cm=cm)
        except Exception as exc:
            mon.fail("tracking-raises", "series can be tracked", exc=repr(exc)[:200])
            return
        mesh = solver.mesh
        if any(mesh.mapping.get(t) is None for t in range(nfr - 1)):
            hist["pair-rejected"] = hist.get("pair-rejected", 0) + 1
            return
        moving = 0
        for t in range(nfr):
            fr = s.frames[t]
            ends = sorted({p[0] for p in fr.big_edges_list} | {p[-1] for p in fr.big_edges_list})
            interior = [vid for vid in list(fr.vertices)[:200] if vid not in ends][:5]
            for vid in ends + interior:
                try:
                    v = mesh.calculate_velocity(vid, t)
                    if np.any(np.asarray(v) != 0):
                        moving += 1
                except Exception as exc:
                    mon.fail("velocity-raises", "velocity of any vertex of a tracked frame", exc=repr(exc)[:200], t=t)
                    break
            # truth velocity of correctly tracked junctions (generator-side), forward/backward
            tn = t + 1 if t < nfr - 1 else t - 1
            tm = dyn.truth_map(s, t, tn)
            for j, vid in list(s.rs[t].jmap.items())[:60]:
                if vid in ends and vid in tm:
                    p, _tp = _partner(mesh, vid, t)
                    if p == tm[vid]:
                        a, b = fr.vertices[vid], s.frames[tn].vertices[p]
                        ref = np.array([b.x - a.x, b.y - a.y]) / (times[tn] - times[t])
                        got = np.asarray(mesh.calculate_velocity(vid, t))
                        mon.count("velocity:truth")
                        if np.abs(got - ref).max() > 1e-9 * (np.abs(ref).max() + 1e-300) + 1e-300:
                            mon.fail("velocity-truth", "velocity equals the generator's finite difference", t=t)
                            break
            # right-hand side
            CTX["cur"] = {"velocity": mesh.calculate_velocity}
            try:
                solver.build_force_matrix(when=t)
                fm = solver.force_matrices[t]
                for kw in ({}, {"b_matrix": "velocity"}, {"b_matrix": "velocity", "adimensional_velocity": True},
                           {"b_matrix": "velocity", "adimensional_velocity": bool(rng.integers(2)),
                            "velocity_normalization": float(10 ** rng.uniform(-2, 2))},
                           # zero is a value like any other (it switches the velocity term off), int or float
                           {"b_matrix": "velocity", "adimensional_velocity": bool(rng.integers(2)),
                            "velocity_normalization": [0, 0.0][int(rng.integers(2))]}):
                    fm.set_velocity_matrix(mesh, **kw)
                if rng.random() < 0.5:
                    # the same options given to the solve: the right-hand side it assembles must honour them
                    kw_s = {"b_matrix": "velocity", "adimensional_velocity": bool(rng.integers(2)),
                            "velocity_normalization": float(10 ** rng.uniform(-1, 1))}
                    CTX["cur"]["caller_kw"] = kw_s
                    try:
                        solver.solve_stress(when=t, allow_negatives=False, **kw_s)
                    finally:
                        CTX["cur"].pop("caller_kw", None)
            except Exception as exc:
                import traceback
                fm_ = solver.force_matrices.get(t)
                at_rest = fm_ is not None and all(not np.any(np.asarray(mesh.calculate_velocity(v_, t)) != 0)
                                                  for v_ in fm_.map_vid_to_row)
                if at_rest and isinstance(exc, FloatingPointError):
                    # every used junction has velocity zero: the mean junction speed is zero and the adimensional
                    # velocity is undefined (0/0); outside the property's domain, counted only
                    hist["zero-mean-speed"] = hist.get("zero-mean-speed", 0) + 1
                else:
                    mon.fail("rhs-raises", "the velocity term can be assembled", exc=repr(exc)[:200], t=t,
                             tb=traceback.format_exc()[-400:])
            CTX.pop("cur", None)
        # system velocity per frame
        try:
            from fv.oracle import fb
            if rng.random() < 0.5:
                # systems built earlier with an opening-angle limit must not decide which junctions are averaged now
                for t in range(nfr):
                    if rng.random() < 0.7:
                        try:
                            solver.build_force_matrix(when=t, angle_limit=float(rng.uniform(0.55, 0.95) * np.pi))
                        except Exception:
                            pass
                hist["limited-build-before-system-velocity"] = hist.get("limited-build-before-system-velocity", 0) + 1
            sysv = solver.get_system_velocity_per_frame()
            for t in range(nfr):
                fm = solver.force_matrices[t]
                # the used junctions of the unrestricted system, from the generator's tissue (O-FB), not from the object
                rt = s.rs[t]
                used = [rt.jmap[j] for j in fb.used_junctions(rt.at, False, rt.ks)]
                sp = [np.linalg.norm(mesh.calculate_velocity(vid, t)) for vid in used]
                ref = float(np.mean(sp)) if sp else 1.0
                mon.count("system-velocity:checked")
                if abs(sysv[t] - ref) > 1e-12 * max(1.0, ref):
                    same = sorted(used) == sorted(fm.map_vid_to_row)
                    mon.fail("system-velocity", "the frame's system velocity is the mean junction speed", t=t, got=float(sysv[t]),
                             ref=ref, junction_set_as_expected=same)
        except Exception as exc:
            rest = any(fm2 is not None and len(fm2.map_vid_to_row) > 0 and
                       all(not np.any(np.asarray(mesh.calculate_velocity(v_, t2)) != 0) for v_ in fm2.map_vid_to_row)
                       for t2, fm2 in solver.force_matrices.items())
            if rest and isinstance(exc, FloatingPointError):
                hist["zero-mean-speed"] = hist.get("zero-mean-speed", 0) + 1
            else:
                mon.fail("system-velocity-raises", "system velocity per frame", exc=repr(exc)[:200])
    if cap.unraisable:
        mon.fail("unraisable", "no destructor raises", events=cap.unraisable[:2])
    hist["times:" + tp] = hist.get("times:" + tp, 0) + 1
    if moving:
        sigs.append([len(at0.cells), nfr, tp, cm, fam])



def _suite_case(prop_id):
    """the repository's own test-suite as an extra workload, run under this property's monitors (shipped fixtures)"""
    from fv import suite
    data, tail = suite.run(prop_id)
    if data is None or data.get("exitstatus") not in (0, 1):
        return {"status": "inconclusive", "reason": "suite-did-not-run", "trace": tail}
    counters = {"suite:" + k: v for k, v in data["evals"].items()}
    counters["suite:runs"] = 1
    fails = list(data["fails"])
    if data.get("unraisable"):
        fails.append({"mech": "unraisable", "clause": "no destructor raises", "detail": {"events": data["unraisable"]}})
    if data.get("monitor_errors"):
        return {"status": "inconclusive", "reason": "monitor-error", "trace": data["monitor_errors"][-1], "counters": counters}
    if fails:
        return {"status": "violated", "findings": fails, "counters": counters, "sigs": [["suite"]]}
    if not data["evals"]:
        return {"status": "inconclusive", "reason": "suite-reached-no-monitor", "counters": counters}
    return {"status": "held", "sigs": [["suite", sum(data["evals"].values())]], "sig": ["suite"], "counters": counters,
            "observed": {"monitor_evaluations_in_suite": data["evals"]}}


def run_case(case):
    if case.get("fam") == "suite":
        return _suite_case(ID)
    mon = _install()
    mon.reset()
    rng = np.random.default_rng(case["seed"])
    sigs, hist = [], {}
    for _ in range(case["count"]):
        _one(rng, case["fam"], mon, sigs, hist)
    res = {"counters": dict(mon.evals), "hist": hist}
    if mon.fails:
        res.update(status="violated", findings=mon.fails)
        if sigs:
            res["sigs"] = sigs
        return res
    if not sigs:
        res.update(status="inconclusive", reason="no-series")
        return res
    res.update(status="held", sigs=sigs, sig=sigs[0], observed={"series": len(sigs)})
    return res
