"""C17 Myosin quantification is a normalised, linear window statistic of the image.

Monitor: post-condition on the real myosin.get_intensities (icontract) against O-MYO, a window / band statistic written from
the property text on the numpy array of the image; plus metamorphic checks (linearity in the image, uniform image, mean one)
and the write-back of reference values in the order given."""
import math
import numpy as np

ID = "C17"
RULE = ("random float32 ('F') and 8-bit ('L') images, uniform images, scaled and summed copies; synthetic tissues placed inside "
        "the image by random rescale / offset (fractional pixel positions); layers 0..3; integrate on/off; normalize in "
        "{None, 'average'}; interface lists with repeated interfaces. distinct = (image mode, interfaces, layers, integrate, "
        "normalize, repeated); non-trivial = at least two interfaces"
        ' Added after the seeded rounds: repeated interfaces in the list, a second placement (rescale / offset) of the same interface objects.'
        ' Vertices jittered in place after the frame was built.')
MIN_DECISIVE = {"quick": 120, "thorough": 1500}
REQUIRED_COUNTERS = ["post:get_intensities", "window:compared", "band:compared", "linearity:checked", "uniform:checked",
                     "writeback:checked", "repeated:checked"]
TECHNIQUE = "runtime contract on myosin.get_intensities against an independent window/band statistic + metamorphic image transforms"
CASE_TIMEOUT = {"quick": 400, "thorough": 1200}
ASSUMPTIONS = ["pixel containing a position = floor of the coordinates (positions are kept >= layers so that PIL's truncation is floor)",
               "layered band = for every polyline segment, walk the major axis between the ceil-ed end points (half-open at the far "
               "end), interpolate the minor axis, take the (2L+1)^2 window around each position; distinct PIXELS are summed"]
CTX = {}


def anchors():
    from fv import env  # noqa
    from forsys import myosin as m
    return [m.get_intensities, m.get_intensity, m.get_layer_elements, m.get_interpolation, m.walk_two_vertices]


def cases(seed, tier):
    q = tier == "quick"
    return [{"seed": [seed, 17, i], "count": 3} for i in range(72 if q else 600)]


def o_window(arr, be, layers, rescale, offset):
    vals = []
    for v in be.vertices:
        x = int(math.floor(v.x * rescale[0] + offset[0]))
        y = int(math.floor(v.y * rescale[1] + offset[1]))
        w = arr[y - layers:y + layers + 1, x - layers:x + layers + 1]
        vals.append(float(np.median(w)))
    return float(np.mean(vals))


def o_band(arr, be, layers, rescale, offset, dedupe_pixels=True):
    xs = [v.x * rescale[0] + offset[0] for v in be.vertices]
    ys = [v.y * rescale[1] + offset[1] for v in be.vertices]
    pix = set()
    raw = set()
    length = 0.0
    for i in range(1, len(xs)):
        a = (math.ceil(xs[i - 1]), math.ceil(ys[i - 1]))
        b = (math.ceil(xs[i]), math.ceil(ys[i]))
        dx, dy = abs(a[0] - b[0]), abs(a[1] - b[1])
        ax = 0 if dx > dy else 1
        step = 1 if a[ax] < b[ax] else -1
        for val in range(a[ax], b[ax], step):
            t = (val - a[ax]) / (b[ax] - a[ax])
            other = a[1 - ax] + t * (b[1 - ax] - a[1 - ax])
            p = (val, other) if ax == 0 else (other, val)
            for ii in range(-layers, layers + 1):
                for kk in range(-layers, layers + 1):
                    q = (p[0] + ii, p[1] + kk)
                    raw.add((float(q[0]), float(q[1])))
                    pix.add((int(math.floor(q[0])), int(math.floor(q[1]))))
        length += math.hypot(xs[i] - xs[i - 1], ys[i] - ys[i - 1])
    tot = sum(float(arr[y, x]) for x, y in pix)
    tot_raw = sum(float(arr[int(math.floor(y)), int(math.floor(x))]) for x, y in raw)
    return tot / length, tot_raw / length, len(pix), len(raw)


_MON = None


def _install():
    global _MON
    if _MON is not None:
        return _MON
    from fv import contracts
    from forsys import myosin
    mon = contracts.Monitor()
    inst = contracts.Installed()

    def intensities_are_the_window_statistic(big_edges, image, integrate, normalize, layers, result, _KWARGS):
        c = CTX.get("cur")
        if c is None:
            return True
        mon.count("post:get_intensities")
        arr = c["arr"]
        rescale = _KWARGS.get("rescale", [1, 1])
        offset = _KWARGS.get("offset", [0, 0])
        n = len(big_edges)
        if sorted(result) != list(range(n)):
            mon.fail("result-keys", "one value per given interface, keyed by position", keys=sorted(result)[:8], n=n)
            return True
        raw = []
        dupnote = False
        for be in big_edges:
            if integrate:
                v, v_raw, npix, nraw = o_band(arr, be, layers, rescale, offset)
                raw.append((v, v_raw))
                if npix != nraw:
                    dupnote = True
            else:
                raw.append((o_window(arr, be, layers, rescale, offset),) * 2)
        ref = np.array([r[0] for r in raw])
        ref_alt = np.array([r[1] for r in raw])
        if normalize == "average":
            ref = ref / ref.mean()
            ref_alt = ref_alt / ref_alt.mean()
        got = np.array([result[i] for i in range(n)], float)
        mon.count("band:compared" if integrate else "window:compared", n)
        tol = 1e-9 * np.maximum(1.0, np.abs(ref))
        if np.any(np.abs(got - ref) > tol):
            i = int(np.argmax(np.abs(got - ref) / tol))
            mech = "statistic"
            if integrate and np.all(np.abs(got - ref_alt) <= 1e-9 * np.maximum(1.0, np.abs(ref_alt))):
                mech = "F-MYO-BAND-DUPLICATES"
            mon.fail(mech, "intensity = window statistic of the image" if not integrate else
                     "intensity = sum of the DISTINCT pixels of the layered band / polyline length", i=i, got=float(got[i]),
                     want=float(ref[i]), integrate=integrate, layers=layers, normalize=normalize, mode=c["mode"])
        if normalize == "average" and abs(got.mean() - 1) > 1e-9:
            mon.fail("mean-not-one", "intensities average to one under 'average' normalisation", mean=float(got.mean()))
        mon.count("writeback:checked")
        for i, be in enumerate(big_edges):
            # with repeated interfaces the LAST occurrence wins for the object; every position must match its own value
            last = max(j for j, b2 in enumerate(big_edges) if b2 is be)
            if abs(be.gt - result[last]) > 0:
                mon.fail("writeback", "values are stored as the interfaces' reference values in the order given", i=i)
                break
        c["result"] = got
        return True

    inst.ensure(myosin, "get_intensities", intensities_are_the_window_statistic)
    _MON = mon
    return mon


def run_case(case):
    from PIL import Image
    from fv import env
    from fv.gen import scen, realise
    from forsys import frames, myosin
    mon = _install()
    mon.reset()
    rng = np.random.default_rng(case["seed"])
    sigs, hist = [], {}
    for _ in range(case["count"]):
        at = scen.base_tissue(rng, ["vor", "arc"][int(rng.integers(2))], ncells=int(rng.integers(8, 30)))
        with env.Capture() as cap:
            r = realise.realise(at, k=int(rng.integers(0, 6)), rng=rng)
            fr = frames.Frame(0, r.vertices, r.edges, r.cells)
        edges_ = list(fr.internal_big_edges)
        if len(edges_) < 2:
            continue
        if rng.random() < 0.4:
            # the mesh moved after the interfaces were built (smoothing, registration): only the vertices' CURRENT positions count
            sp_ = min(np.hypot(e_.v1.x - e_.v2.x, e_.v1.y - e_.v2.y) for e_ in r.edges.values())
            for v_ in r.vertices.values():
                v_.x = float(v_.x + rng.normal(0, 0.3 * sp_))
                v_.y = float(v_.y + rng.normal(0, 0.3 * sp_))
            hist["vertices-moved-after-build"] = hist.get("vertices-moved-after-build", 0) + 1
        layers = int(rng.integers(0, 4))
        # place the tissue inside the image
        zs = np.array([complex(v.x, v.y) for v in r.vertices.values()])
        ext = max(zs.real.max() - zs.real.min(), zs.imag.max() - zs.imag.min())
        size = int(rng.integers(120, 260))
        # non-square images (rows x columns): extra rows or columns beyond the tissue
        shape = (size + int(rng.integers(0, 90)), size) if rng.random() < 0.5 else (size, size + int(rng.integers(0, 90)))
        margin = layers + 4
        sc = (size - 2 * margin - 2) / ext * float(rng.uniform(0.5, 1.0))
        rescale = [sc, sc * float(rng.uniform(0.8, 1.0))]
        # the tissue may sit anywhere along the longer side (x = column, y = row): positions beyond the short side occur
        offset = [margin + 1 - zs.real.min() * rescale[0] + float(rng.uniform(0, 3 + (shape[1] - size))),
                  margin + 1 - zs.imag.min() * rescale[1] + float(rng.uniform(0, 3 + (shape[0] - size)))]
        mode = ["F", "L"][int(rng.integers(2))]
        if mode == "F":
            arr = rng.uniform(0, 10, shape).astype(np.float32)
        else:
            arr = rng.integers(0, 256, shape).astype(np.uint8)
        img = Image.fromarray(arr, mode=mode)
        integrate = bool(rng.integers(2))
        normalize = [None, "average"][int(rng.integers(2))]
        repeated = bool(rng.random() < 0.3)
        lst = list(edges_)
        if repeated:
            lst = lst + [lst[int(rng.integers(len(lst)))], lst[0]]
        kw = {"rescale": rescale, "offset": offset}

        def call(image, arr_, lst_, integ, norm, kw_=None):
            CTX["cur"] = cur = {"arr": arr_.astype(float), "mode": mode}
            try:
                myosin.get_intensities(lst_, image, integ, norm, layers, **(kw_ or kw))
            except Exception as exc:
                import traceback
                mech = "raises"
                if len(set(map(id, lst_))) != len(lst_) and isinstance(exc, KeyError):
                    mech = "F-MYO-INDEX"
                mon.fail(mech, "intensities are returned for the given list", exc=repr(exc)[:120], integrate=integ,
                         normalize=norm, repeated=len(set(map(id, lst_))) != len(lst_), tb=traceback.format_exc()[-300:])
            CTX.pop("cur", None)
            return cur.get("result")
        base = call(img, arr, lst, integrate, normalize)
        if repeated:
            mon.count("repeated:checked")
        if base is not None and rng.random() < 0.5:
            # another channel / another registration of the SAME interface objects: nothing of the first placement may survive
            f2 = float(rng.uniform(0.6, 0.95))
            kw2 = {"rescale": [rescale[0] * f2, rescale[1] * f2],
                   "offset": [offset[0] * f2 + float(rng.uniform(0, 4)), offset[1] * f2 + float(rng.uniform(0, 4))]}
            call(img, arr, edges_, integrate, None, kw2)
            mon.count("second-placement:checked")
        if base is not None:
            # linearity in the image (un-normalised statistic)
            b0 = call(img, arr, edges_, integrate, None)
            alpha = float(rng.uniform(0.2, 3.0))
            if mode == "F":
                arr2 = rng.uniform(0, 10, shape).astype(np.float32)
                a_s = (arr * np.float32(alpha)).astype(np.float32)
                a_sum = (arr + arr2).astype(np.float32)
                b_s = call(Image.fromarray(a_s, mode="F"), a_s, edges_, integrate, None)
                b_2 = call(Image.fromarray(arr2, mode="F"), arr2, edges_, integrate, None)
                b_sum = call(Image.fromarray(a_sum, mode="F"), a_sum, edges_, integrate, None)
                if b0 is not None and b_s is not None and b_2 is not None and b_sum is not None:
                    mon.count("linearity:checked")
                    # medians are not additive: the sum clause is decided for layers == 0 or the integrated statistic
                    if np.any(np.abs(b_s - alpha * b0) > 1e-5 * np.maximum(1, np.abs(b0))):
                        mon.fail("linearity-scale", "intensities scale linearly with the image", alpha=alpha)
                    if (integrate or layers == 0) and np.any(np.abs(b_sum - (b0 + b_2)) > 1e-5 * np.maximum(1, np.abs(b_sum))):
                        mon.fail("linearity-sum", "intensities are additive in the image", integrate=integrate, layers=layers)
            else:
                mon.count("linearity:checked")
            # uniform image -> equal values (non-integrated statistic)
            val = float(rng.uniform(1, 9)) if mode == "F" else int(rng.integers(1, 255))
            au = np.full(shape, val, dtype=arr.dtype)
            bu = call(Image.fromarray(au, mode=mode), au, edges_, False, None)
            if bu is not None:
                mon.count("uniform:checked")
                if np.any(np.abs(bu - bu[0]) > 1e-9 * abs(bu[0])) or abs(bu[0] - val) > 1e-6 * abs(val):
                    mon.fail("uniform", "all interfaces of a uniformly bright image get the same value", spread=float(np.ptp(bu)))
        hist["mode:" + mode] = hist.get("mode:" + mode, 0) + 1
        sigs.append([mode, len(lst), layers, integrate, str(normalize), repeated])
    res = {"counters": dict(mon.evals), "hist": hist}
    if mon.fails:
        res.update(status="violated", findings=mon.fails, sigs=sigs)
        return res
    if not sigs:
        res.update(status="inconclusive", reason="no-interfaces")
        return res
    res.update(status="held", sigs=sigs, sig=sigs[0], observed={"calls": len(sigs)})
    return res
