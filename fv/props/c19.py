"""C19 Tessellation lattices match the Voronoi diagram of the given centres.

Monitor: post-condition on the real tessellation.create_lattice against O-VORONOI (bounded regions of scipy's Voronoi diagram
with diameter below the cut-off, corners ordered by angle around the region's centroid, rounded to three decimals), vertex /
edge interning, common rotational sense, O-MESH."""
import numpy as np

ID = "C19"
RULE = ("centre sets: uniform random, jittered lattice, exactly square, exactly hexagonal (axis-parallel ridges), 6..300 "
        "points, with / without the helper ring of add_voronoi_centers, max_distance from tight (median cell diameter) to "
        "infinite, coordinates scaled / offset. decisive = rounded corners of every kept region pairwise distinct and no "
        "region diameter within 1e-9 of the cut-off. distinct = (kind, centres, cells kept, helper ring, cut-off class); "
        "non-trivial = at least one cell"
        ' Added after the seeded rounds: centres 1e3..3e5 from the origin, a second lattice from the same elements.'
        ' Small units (a cell 24 roundings wide).')
MIN_DECISIVE = {"quick": 50, "thorough": 600}
REQUIRED_COUNTERS = ["post:create_lattice", "cells:compared", "interning:checked"]
REQUIRED_HIST = {"any": ["kind:square", "kind:hex", "kind:random", "kind:jitter"]}
TECHNIQUE = "runtime contract on tessellation.create_lattice against an independent reading of scipy.spatial.Voronoi"
CASE_TIMEOUT = {"quick": 600, "thorough": 1800}
ASSUMPTIONS = ["scipy.spatial.Voronoi is the reference diagram; corners of a bounded Voronoi region are in convex position"]
CTX = {}


def anchors():
    from fv import env  # noqa
    from forsys import tessellation as t
    return [t.create_lattice, t.create_lattice_elements, t.line_eq, t.remove_infinite_regions, t.get_vertex_number, t.get_enum,
            t.get_cell_area_sign, t.distance_matrix, t.add_voronoi_centers]


def cases(seed, tier):
    q = tier == "quick"
    kinds = ["random", "jitter", "square", "hex"]
    return [{"kind": kinds[i % 4], "seed": [seed, 19, i]} for i in range(108 if q else 900)]


def centres(rng, kind):
    if kind == "random":
        n = int(rng.integers(6, 120))
        pts = rng.uniform(0, 40, (n, 2))
    elif kind == "jitter":
        m = int(rng.integers(3, 12))
        g = np.array([(i, j) for i in range(m) for j in range(m)], float) * 5.0
        pts = g + rng.normal(0, rng.uniform(0.05, 1.0), g.shape)
    elif kind == "square":
        m, k = int(rng.integers(3, 14)), int(rng.integers(3, 14))
        a = float(rng.choice([1.0, 2.0, 2.5, 5.0, 7.0]))
        pts = np.array([(i * a, j * a) for i in range(m) for j in range(k)], float)
    elif kind == "hex":
        m, k = int(rng.integers(3, 12)), int(rng.integers(3, 12))
        a = float(rng.choice([1.0, 2.0, 4.0]))
        pts = np.array([((i + 0.5 * (j % 2)) * a, j * a * np.sqrt(3) / 2) for i in range(m) for j in range(k)], float)
    if kind in ("jitter", "hex") and rng.random() < 0.25:
        # small units: a cell is 25 roundings (1e-3) wide, its area is below 1e-3
        pts = pts * (0.0237 / (5.0 if kind == "jitter" else a))
    u = rng.random()
    if u < 0.3:
        pts = pts + rng.uniform(-50, 50, 2)
    elif u < 0.5:
        # centres far from the origin (stage coordinates): corners must still be told apart to three decimals
        pts = pts + np.round(rng.choice([-1, 1], 2) * 10 ** rng.uniform(3, 5.5, 2), 3)
    return [tuple(float(x) for x in p) for p in pts]


_MON = None


def _cyc_eq(a, b):
    if len(a) != len(b):
        return False
    n = len(a)
    for seq in (b, b[::-1]):
        for s in range(n):
            if all(a[(s + i) % n] == seq[i] for i in range(n)):
                return True
    return False


def _install():
    global _MON
    if _MON is not None:
        return _MON
    from fv import contracts
    from fv.oracle import mesh as omesh
    from forsys import tessellation
    mon = contracts.Monitor()
    inst = contracts.Installed()

    def lattice_is_the_voronoi_diagram(result):
        c = CTX.get("cur")
        if c is None:
            return True
        mon.count("post:create_lattice")
        vertices, edges, cells = result
        exp = c["expected"]            # list of cycles of rounded corner tuples
        got = [[(v.x, v.y) for v in cell.vertices] for cell in cells.values()]
        if len(got) != len(exp):
            mon.fail("cell-count", "one cell for every bounded Voronoi region whose diameter is below the cut-off",
                     got=len(got), want=len(exp), kind=c["kind"])
        used = set()
        for cyc in exp:
            mon.count("cells:compared")
            hit = None
            for i, g in enumerate(got):
                if i not in used and set(g) == set(cyc) and _cyc_eq(g, cyc):
                    hit = i
                    break
            if hit is None:
                mon.fail("cell-cycle", "the region's corner points (rounded to three decimals) as the cell's vertex cycle",
                         region=cyc[:6], kind=c["kind"])
                break
            used.add(hit)
        # interning: one Vertex object per position, one SmallEdge per vertex pair, shared between neighbours
        mon.count("interning:checked")
        pos = {}
        for v in vertices.values():
            pos.setdefault((v.x, v.y), []).append(v.id)
        dup = {p: ids for p, ids in pos.items() if len(ids) > 1}
        if dup:
            mon.fail("vertex-not-shared", "neighbouring regions share the vertices of their common ridge",
                     example=str(list(dup.items())[:2]))
        pairs = {}
        for e in edges.values():
            pairs.setdefault(frozenset((e.v1.id, e.v2.id)), []).append(e.id)
        if any(len(x) > 1 for x in pairs.values()):
            mon.fail("edge-not-shared", "neighbouring regions share the mesh edge of their common ridge")
        for cell in cells.values():
            for v in cell.vertices:
                if vertices.get(v.id) is not v:
                    mon.fail("cell-vertex-identity", "cells refer to the lattice's vertex objects")
                    break
        signs = {cell.get_area_sign() for cell in cells.values()}
        if len(signs) > 1:
            mon.fail("mixed-orientation", "all cells are stored in the same rotational sense", signs=sorted(signs))
        bad = omesh.check_mesh(vertices, edges, cells)
        if bad:
            mon.fail("inconsistent-mesh", "the mesh is consistent", first=bad[:3])
        return True

    inst.ensure(tessellation, "create_lattice", lattice_is_the_voronoi_diagram)
    _MON = mon
    return mon


def run_case(case):
    import scipy.spatial as sp
    from fv import env
    from forsys import tessellation
    mon = _install()
    mon.reset()
    rng = np.random.default_rng(case["seed"])
    kind = case["kind"]
    cs = centres(rng, kind)
    ring = bool(rng.random() < 0.4)
    if ring:
        cs = cs + [tuple(float(x) for x in p) for p in tessellation.add_voronoi_centers(cs)]
    vor = sp.Voronoi(cs)
    # O-VORONOI
    diam = []
    regs = []
    for reg in vor.regions:
        if len(reg) == 0 or -1 in reg:
            continue
        P = vor.vertices[reg]
        d = max(np.hypot(*(p - q)) for p in P for q in P)
        regs.append((reg, P, d))
        diam.append(d)
    if not regs:
        return {"status": "inconclusive", "reason": "no-bounded-region"}
    cls = ["tight", "loose", "inf", "default"][int(rng.integers(4))]
    md = {"tight": float(np.median(diam)) * 1.05, "loose": float(np.max(diam)) * 0.7 + 1e-3, "inf": 1e12, "default": None}[cls]
    cutoff = 75 if md is None else md
    if any(abs(d - cutoff) < 1e-9 * max(1, cutoff) for d in diam):
        return {"status": "inconclusive", "reason": "diameter-on-cut-off"}
    expected = []
    decisive = True
    for reg, P, d in regs:
        if d > cutoff:
            continue
        R = [(round(float(p[0]), 3), round(float(p[1]), 3)) for p in P]
        if len(set(R)) != len(R):
            decisive = False
        if np.any(np.abs((np.abs(P) * 1000.0) % 1.0 - 0.5) < 1e-6):
            decisive = False        # a corner coordinate on a rounding tie: which neighbour it goes to is not specified
        cen = P.mean(axis=0)
        order = np.argsort(np.arctan2(P[:, 1] - cen[1], P[:, 0] - cen[0]))
        expected.append([R[i] for i in order])
    if not decisive:
        return {"status": "inconclusive", "reason": "rounded-corners-coincide"}
    kw = {} if md is None else {"max_distance": md}
    hist = {"kind:" + kind: 1, "cutoff:" + cls: 1}
    with env.Capture() as cap:
        CTX["cur"] = {"expected": expected, "kind": kind}
        try:
            elems = tessellation.create_lattice_elements(cs, **kw)
            tessellation.create_lattice(*elems)
            if case["seed"][2] % 3 == 0:
                # the same elements turned into a lattice a second time: the first call must not have consumed them
                tessellation.create_lattice(*elems)
                hist["second-lattice-from-same-elements"] = 1
        except Exception as exc:
            import traceback
            tb = traceback.format_exc()
            mech = "raises"
            if isinstance(exc, FloatingPointError) and "line_eq" in tb:
                mech = "F-TESS-VERTICAL"
            mon.fail(mech, "a lattice is built from the tessellation", exc=repr(exc)[:160], kind=kind, ring=ring, tb=tb[-300:])
        CTX.pop("cur", None)
    if cap.unraisable:
        mon.fail("unraisable", "no destructor raises", events=cap.unraisable[:2])
    res = {"counters": dict(mon.evals), "hist": hist}
    sig = [kind, len(cs), len(expected), ring, cls]
    if mon.fails:
        res.update(status="violated", findings=mon.fails, sigs=[sig])
        return res
    if not expected:
        res.update(status="inconclusive", reason="no-cell-kept")
        return res
    res.update(status="held", sigs=[sig], sig=sig, observed={"cells": len(expected)})
    return res
