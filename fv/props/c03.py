"""C03 Dynamic inference recovers tensions from junction velocities.

Monitor: post-condition on ForSys.solve_stress(b_matrix='velocity') on generated series in which the target frame's
junction displacement (to the next frame; from the previous one at the last frame) is exactly elapsed time x resultant of
prescribed positive tensions along the ANALYTIC tangents of that frame (unit mobility); every frame is renumbered
independently and time steps are unequal."""
import numpy as np

ID = "C03"
RULE = ("arc tissues (random bulge, 8..35 cells) x arbitrary positive tensions of mean one over the inferred interfaces "
        "(border interfaces tension-free) x 2..5 frames x target frame first / middle / last (backward difference) x unequal "
        "time steps x independent renumbering of every frame x method {default, lsq, lsq_linear}; other frames move by "
        "arbitrary small fields. decisive = oracle system of the method has full column rank, the 3-decimal rounding bound "
        "5e-4*sum|pinv| <= 0.05, tracking bounds hold on every pair. distinct = (cells, frames, target position, method, "
        "equations, unknowns); non-trivial = at least one junction equation"
        ' Added after the seeded rounds: another frame or an adimensional solve first on the same object; rosettes (square systems); all-defaults solves; wrong tracking inside the bounds is a violation.')
MIN_DECISIVE = {"quick": 50, "thorough": 900}
REQUIRED_COUNTERS = ["post:solve_stress", "tension:compared"]
REQUIRED_HIST = {"any": ["target:first", "target:middle", "target:last", "method:default", "method:lsq", "method:lsq_linear"]}
TECHNIQUE = ("runtime contract on ForSys.solve_stress against prescribed tensions of a generated overdamped series; tolerance = "
             "worst case of rounding every right-hand side to 3 decimals (row sums of |pinv|) + observed fit error propagated")
CASE_TIMEOUT = {"quick": 500, "thorough": 1500}
ASSUMPTIONS = ["unit mobility: displacement = elapsed time x resultant, resultants from the analytic tangents of the frame being inferred",
               "F-MIRROR straddles are judged against the oracle's NNLS solution of the system the code is known to assemble"]
CTX = {}


def anchors():
    from fv import env  # noqa
    import forsys as fs
    from forsys import fmatrix, time_series as ts
    return [fs.ForSys.solve_stress, fmatrix.ForceMatrix.solve, fmatrix.ForceMatrix.set_velocity_matrix,
            ts.TimeSeries.calculate_velocity, fmatrix.ForceMatrix.add_mean_one, fmatrix.ForceMatrix.add_mean_one_before]


def cases(seed, tier):
    q = tier == "quick"
    return [{"seed": [seed, 3, i], "count": 2, "target": ["first", "middle", "last"][i % 3]} for i in range(96 if q else 1200)]


_MON = None


def _method_system(A, b, method):
    n = A.shape[1]
    if method == "lsq_linear":
        M = np.zeros((n + 1, n + 1))
        M[:n, :n] = A.T @ A
        M[n, :n] = 1
        M[:n, n] = 1
        rhs = np.concatenate([A.T @ b, [n]])
    else:
        m = A.shape[0]
        M = np.zeros((m + 1, n + 1))
        M[:m, :n] = A
        M[m, :n] = 1
        M[:m, n] = 1
        rhs = np.concatenate([b, [n]])
    return M, rhs


def _install():
    global _MON
    if _MON is not None:
        return _MON
    from fv import contracts
    from fv.oracle import fb
    from fv.gen import scen
    import forsys as fs
    mon = contracts.Monitor()
    inst = contracts.Installed()

    def dynamic_inference_recovers_tensions(self, when):
        c = CTX.get("cur")
        if c is None:
            return True
        mon.count("post:solve_stress")
        at, r, T, method = c["at"], c["r"], c["T"], c["method"]
        frame = self.frames[when]
        fm = self.force_matrices[when]
        pmap, inv = scen.physical_maps(r)
        keys = [pmap.get(tuple(b.get_vertices_ids())) for b in frame.internal_big_edges]
        if None in keys or sorted(map(sorted, keys)) != sorted(map(sorted, c["ikeys"])):
            mon.fail("inferred-set", "inferred interfaces = internal interfaces", n=len(keys))
            return True
        A0, junctions, _ = fb.matrix(at, keys=keys)
        if A0.shape[0] == 0:
            c["skip"] = "no-equation"
            return True
        rows = []
        for j in junctions:
            rr = fm.map_vid_to_row.get(r.jmap[j])
            if rr is None:
                c["skip"] = "junction-missing-in-code"
                return True
            rows += [rr, rr + 1]
        if fm.matrix.shape[1] != len(keys) or len(fm.map_vid_to_row) != len(junctions):
            c["skip"] = "system-shape-differs"
            return True
        A_code = np.array(fm.matrix[rows, :], float)
        x_true = np.array([T[k] for k in keys])
        F = c["F"]
        v_true = np.array([comp for j in junctions for comp in (F[j].real, F[j].imag)])
        # right-hand side the code used (observed), reordered; must be the true velocities up to the 4-decimal record
        # ---- classes / straddles
        ji = at.jifaces()
        col = {k: i for i, k in enumerate(keys)}
        dA = A_code - A0
        straddle = out_of_class = 0
        for ri, j in enumerate(junctions):
            for k in ji[j]:
                if k in col:
                    a_, b_ = at.ends(k)
                    loc = max(abs(at.J[a_]), abs(at.J[b_])) / abs(at.J[a_] - at.J[b_])
                    e = fb.eps_class(c["fit"], at.PHI[k], r.ks[k] + 2, loc)
                    d = max(abs(dA[2 * ri, col[k]]), abs(dA[2 * ri + 1, col[k]]))
                    if d > e:
                        q = fb.q_mirror(at.tangent(k, j), scen.first_segment(r, k, j))
                        if r.ks[k] > 0 and abs(q - at.tangent(k, j)) > e:
                            straddle += 1
                        else:
                            out_of_class += 1
        if out_of_class:
            c["skip"] = "coefficients-out-of-class"
            return True
        M0, rhs0 = _method_system(A0, v_true, method)
        if M0.shape[0] < M0.shape[1]:
            c["skip"] = "not-unique"
            return True
        s = np.linalg.svd(M0, compute_uv=False)
        if s.min() < 1e-6 * s.max():
            c["skip"] = "not-unique"
            return True
        P = np.linalg.pinv(M0)
        round_tol = 5e-4 * np.abs(P).sum(axis=1)[:len(keys)]          # worst case of rounding every entry of b
        if round_tol.max() > 0.3:      # still a valid worst-case bound; above this even gross errors could hide
            c["skip"] = "rounding-bound-too-coarse"
            return True
        solver_tol = {None: 1e-9, "lsq": 1e-5, "lsq_linear": 1e-4}[method] * (1 + 1 / s.min())
        got = np.array([b.tension for b in frame.internal_big_edges], float)
        obs = {"BigEdge.tension": got,
               "forces": np.array([self.forces[when][i] for i in range(len(keys))], float),
               "frame.forces": np.array([frame.forces[i] for i in range(len(keys))], float)}
        mon.count("tension:compared", len(keys))
        if straddle == 0:
            if method == "lsq_linear":
                dM = np.zeros_like(M0)
                n_ = len(keys)
                dM[:n_, :n_] = A_code.T @ A_code - A0.T @ A0
                z_true = np.concatenate([x_true, [0.0]])
                drhs = np.concatenate([(A_code - A0).T @ v_true, [0.0]])
                fit_tol = 3 * np.abs(P[:n_] @ (dM @ z_true - drhs)) + 1e-12
            else:
                fit_tol = 3 * np.abs(P[:len(keys), :A0.shape[0]] @ (dA @ x_true)) + 1e-12
            tol = round_tol + fit_tol + solver_tol
            ref = x_true
            mech_known = None
        else:
            Mq, rq = _method_system(A_code, v_true, method)
            if getattr(fm, "_verif", {}).get("path") == "inv" and Mq.shape[0] == Mq.shape[1]:
                # the square system was solved by direct inversion and the result accepted (with all defaults negative
                # values are not rejected): the defect-aware reference is the exact solution of the assembled system
                z = np.linalg.solve(Mq, rq.round(3))
            else:
                z, _ = fb.nnls_ref(Mq, rq.round(3))
            ref = z[:-1]
            sq = np.linalg.svd(Mq, compute_uv=False)
            Pq = np.linalg.pinv(Mq)
            tol = 5e-4 * np.abs(Pq).sum(axis=1)[:len(keys)] * 0 + {None: 1e-6, "lsq": 1e-3, "lsq_linear": 1e-3}[method] * (1 + 1 / sq.min())
        worst = 0.0
        for name, v in obs.items():
            if not np.all(np.isfinite(v)):
                mon.fail("non-finite", "reported tensions are finite", name=name)
                continue
            e = np.abs(v - ref)
            if np.all(e <= tol):
                worst = max(worst, float((e / tol).max()))
                if straddle and np.any(np.abs(v - x_true) > round_tol + solver_tol + 1e-6):
                    mon.fail("F-MIRROR", "velocity-based inference returns the prescribed tensions", name=name,
                             err_vs_truth=float(np.abs(v - x_true).max()), straddled_coefficients=straddle)
                continue
            i = int(np.argmax(e / tol))
            mon.fail("tension", "velocity-based inference returns the prescribed tensions within the rounding tolerance",
                     name=name, err=float(e[i]), tol=float(tol[i]), got=float(v[i]), want=float(ref[i]), method=method,
                     target=c["target"], straddle=straddle, n=len(keys), rows=A0.shape[0],
                     path=getattr(fm, "_verif", {}).get("path"))
        c["worst"] = worst
        c["shape"] = list(A0.shape)
        c["straddle"] = straddle
        return True

    inst.ensure(fs.ForSys, "solve_stress", dynamic_inference_recovers_tensions)
    _MON = mon
    return mon


def _one(rng, target, mon, sigs, hist, metrics):
    from fv import env, dyn
    from fv.gen import scen, series, tissue
    from fv.oracle import fb
    import forsys as fs
    if rng.random() < 0.12:
        # a cell ringed by n cells: n junctions and 2n interfaces, i.e. a SQUARE system (solved by direct inversion)
        from fv.gen import tissue as _tissue
        at = _tissue.bulge(rng, _tissue.lattice("rosette", int(rng.integers(3, 10)), int(rng.integers(9)),
                                                a=float(10 ** rng.uniform(-0.5, 0.5))), 0.3)
        hist["rosette"] = hist.get("rosette", 0) + 1
    else:
        at = scen.base_tissue(rng, "arc", ncells=int(rng.integers(8, 36)))
        at, _ = scen.maybe_sub(rng, at, p=0.2, min_cells=6)
    if rng.random() < 0.5:
        at = at.similarity(theta=rng.uniform(0, 6.28), scale=10 ** rng.uniform(-0.3, 0.7))
    method = [None, "lsq", "lsq_linear"][int(rng.integers(3))]
    ikeys = fb.internal_keys(at)
    if not ikeys:
        return
    T = {k: 0.0 for k in at.E}
    raw = rng.uniform(0.3, 1.7, len(ikeys))
    raw = raw / raw.mean()
    for k, v in zip(ikeys, raw):
        T[k] = float(v)
    F = series.resultants(at, T)
    nfr = int(rng.integers(2, 6))
    if target == "middle" and nfr < 3:
        nfr = 3
    ti = {"first": 0, "last": nfr - 1, "middle": int(rng.integers(1, max(2, nfr - 1)))}[target]
    if ti >= nfr - 1 and target == "middle":
        ti = 1
    # time step so that every displacement stays inside the tracking bounds (margin 0.5)
    amp = series.amplitude(at, frac=0.5)
    fmax = max(abs(f) for f in F.values())
    if fmax == 0:
        return
    dt = amp / fmax
    ats = [None] * nfr
    ats[ti] = at
    step = {j: dt * F[j] for j in at.J}
    if ti == nfr - 1:
        ats[ti - 1] = series.moved(at, {j: -d for j, d in step.items()})
        fixed = {ti, ti - 1}
    else:
        ats[ti + 1] = series.moved(at, step)
        fixed = {ti, ti + 1}
    # remaining frames: arbitrary small motions, built outward
    for t in range(max(fixed) + 1, nfr):
        prev = ats[t - 1]
        ats[t] = series.moved(prev, series.field(rng, prev, ["random", "affine", "flow"][int(rng.integers(3))],
                                                 series.amplitude(prev, 0.4)))
    for t in range(min(fixed) - 1, -1, -1):
        nxt = ats[t + 1]
        ats[t] = series.moved(nxt, series.field(rng, nxt, ["random", "affine", "flow"][int(rng.integers(3))],
                                                series.amplitude(nxt, 0.4)))
    # time stamps: the step around the target frame is dt, the others arbitrary
    gaps = rng.uniform(0.3, 3.0, nfr - 1) * dt
    gi = ti - 1 if ti == nfr - 1 else ti
    gaps[gi] = dt
    times = float(rng.uniform(-1, 1)) + np.concatenate([[0.0], np.cumsum(gaps)])
    for tcheck in range(nfr - 1):
        q, ok = series.motion_bounds(ats[tcheck], ats[tcheck + 1])
        if not ok:
            hist["generator:bounds-missed"] = hist.get("generator:bounds-missed", 0) + 1
            return
    fit = ["dlite", "taubinSVD"][int(rng.integers(2))]
    with env.Capture() as cap:
        s = dyn.build(rng, ats, times, k=int(rng.integers(1, 7)), relabel=True)
        try:
            solver = fs.ForSys(s.frames, cm=False)
        except Exception as exc:
            mon.fail("tracking-raises", "series can be tracked", exc=repr(exc)[:200])
            return
        # tracking must be right for the target step (C12's subject; otherwise this case says nothing about C03)
        tn = ti - 1 if ti == nfr - 1 else ti + 1
        tm = dyn.truth_map(s, min(ti, tn), max(ti, tn))
        mp = solver.mesh.mapping.get(min(ti, tn))
        used = fb.used_junctions(at)
        r_t = s.rs[ti]
        bad_track = False
        for j in used:
            a = s.rs[min(ti, tn)].jmap[j]
            if mp is None or mp.get(a) != s.rs[max(ti, tn)].jmap[j]:
                bad_track = True
        if bad_track:
            # every consecutive pair of this series is inside the tracking bounds (checked above with a safety factor), and no
            # vertex disappears: a wrong correspondence makes the inference wrong
            mon.fail("tracking-wrong", "junctions of a series inside the motion bounds are followed to their true successors "
                     "(pre-condition of the velocity term)", target=target, frames=nfr, ti=ti)
            hist["tracking-wrong"] = hist.get("tracking-wrong", 0) + 1
            return
        CTX["cur"] = cur = {"at": at, "r": r_t, "T": T, "F": F, "method": method, "ikeys": ikeys, "target": target, "fit": fit}
        try:
            if nfr > 2 and rng.random() < 0.5:
                # users infer several frames on one object: an earlier dynamic solve of ANOTHER frame must not matter
                CTX["cur"] = None
                other = [t_ for t_ in range(nfr) if t_ != ti][int(rng.integers(nfr - 1))]
                try:
                    solver.build_force_matrix(when=other)
                    solver.solve_stress(when=other, b_matrix="velocity")
                except Exception:
                    pass
                CTX["cur"] = cur
                hist["other-frame-solved-first"] = hist.get("other-frame-solved-first", 0) + 1
            solver.build_force_matrix(when=ti, circle_fit_method=fit)
            kw = {} if method is None else {"method": method}
            if rng.random() < 0.3:
                # the same assembled system solved first with adimensional velocities (as get_system_velocity_per_frame does
                # on it): the scale of that call must not survive into the dimensional one
                CTX["cur"] = None
                try:
                    solver.solve_stress(when=ti, b_matrix="velocity", adimensional_velocity=True, allow_negatives=False)
                except Exception:
                    pass
                CTX["cur"] = cur
                hist["adimensional-solve-first"] = hist.get("adimensional-solve-first", 0) + 1
            if method is None and rng.random() < 0.4:
                # all defaults (negative values are then not rejected; the true solution has none)
                hist["all-defaults"] = hist.get("all-defaults", 0) + 1
                solver.solve_stress(when=ti, b_matrix="velocity")
            else:
                solver.solve_stress(when=ti, b_matrix="velocity", allow_negatives=False, **kw)
        except Exception as exc:
            import traceback
            mon.fail("raises", "dynamic inference returns a result", exc=repr(exc)[:200], method=method, target=target,
                     tb=traceback.format_exc()[-500:])
        CTX.pop("cur", None)
    if cap.unraisable:
        mon.fail("unraisable", "no destructor raises", events=cap.unraisable[:2])
    hist["target:" + target] = hist.get("target:" + target, 0) + 1
    hist["method:" + (method or "default")] = hist.get("method:" + (method or "default"), 0) + 1
    if "skip" in cur:
        hist["skip:" + cur["skip"]] = hist.get("skip:" + cur["skip"], 0) + 1
        return
    if "shape" in cur:
        if cur["straddle"]:
            hist["systems-with-straddle"] = hist.get("systems-with-straddle", 0) + 1
        metrics["err_over_tol"] = max(metrics.get("err_over_tol", 0.0), cur["worst"])
        sigs.append([len(at.cells), nfr, target, method or "default", cur["shape"][0] // 2, cur["shape"][1], fit])


def run_case(case):
    mon = _install()
    mon.reset()
    rng = np.random.default_rng(case["seed"])
    sigs, hist, metrics = [], {}, {}
    for _ in range(case["count"]):
        _one(rng, case["target"], mon, sigs, hist, metrics)
    res = {"counters": dict(mon.evals), "hist": hist, "metrics": metrics}
    if mon.fails:
        res.update(status="violated", findings=mon.fails)
        if sigs:
            res["sigs"] = sigs
        return res
    if not sigs:
        res.update(status="inconclusive", reason="no-decisive-system")
        return res
    res.update(status="held", sigs=sigs, sig=sigs[0], observed={"systems": len(sigs), **metrics})
    return res
