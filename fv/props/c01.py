"""C01 Static inference recovers the tensions of any tissue in force balance.

Monitor: post-condition on the real ForSys.solve_stress (icontract) comparing what is reported at four observation points
(forces dict, frame.forces, tension table, BigEdge / SmallEdge tension) with the analytic truth of Maxwell-reciprocal
Voronoi tissues and their Moebius images, per physical interface."""
import json
import numpy as np

ID = "C01"
RULE = ("equilibrium tissues: Voronoi diagrams (uniform / jittered-hexagonal / Poisson-disc sites, 3..70 cells, tension = "
        "site distance) and Moebius images of them (|phi| 1e-9..1.2 rad), random connected sub-tissues, every pose class "
        "(identity, rotation, tangent within 1e-9..1e-1 of an axis, similarity with offsets up to 1e4 sizes, reflection), "
        "0..16 interior points per interface (2-point interfaces on straight tissues only), optionally resampled with "
        "generate_mesh(ne=2..12); x method {default,lsq,lsq_linear} x fit {dlite,taubinSVD}; allow_negatives=False. "
        "decisive = augmented oracle system has full column rank (sigma_min >= 1e-3) and the fit-precision tolerance is "
        "<= 5% of the largest tension; distinct = (family, cells, equations, unknowns, points, method, fit, pose, resampled)"
        ' Added after the seeded rounds: equilibrium tissues with four-fold junctions (vor4/mob4), first segment of a curved interface exactly axis-parallel, 40 % of the default-method solves with all defaults, structure differences judged end to end.')
MIN_DECISIVE = {"quick": 80, "thorough": 1000}
REQUIRED_COUNTERS = ["post:solve_stress", "tension:compared"]
REQUIRED_HIST = {"any": ["method:default", "method:lsq", "method:lsq_linear", "fit:dlite", "fit:taubinSVD", "resampled"]}
TECHNIQUE = ("runtime contract on ForSys.solve_stress against the analytic truth of generated equilibrium tissues "
             "(Maxwell-reciprocal Voronoi + Moebius images); F-MIRROR decided by its closed-form model + reference NNLS")
CASE_TIMEOUT = {"quick": 400, "thorough": 1200}
ASSUMPTIONS = ["Voronoi ridges with tension = site distance are in exact force balance; Moebius maps preserve junction angles",
               "tolerance = 12*eps_class*||x_true||_2/sigma_min(augmented oracle matrix) + 1e-9 (first-order perturbation "
               "bound; eps_class = measured precision of the circle fit)"]

CTX = {}


def anchors():
    from fv import env  # noqa
    import forsys as fs
    from forsys import fmatrix, edge, virtual_edges as ve, frames
    return [fs.ForSys.solve_stress, fs.ForSys.build_force_matrix, fmatrix.ForceMatrix.solve,
            fmatrix.ForceMatrix.add_mean_one, fmatrix.ForceMatrix.add_mean_one_before,
            fmatrix.ForceMatrix._build_matrix, fmatrix.ForceMatrix.get_vertex_equation,
            edge.BigEdge.get_vector_from_vertex, ve.calculate_circle_center, ve.generate_mesh,
            frames.Frame.assign_tensions_to_big_edges]


def cases(seed, tier):
    q = tier == "quick"
    n = 190 if q else 1800
    fams = ["mob", "mob", "vor", "mob", "vor4", "mob4"]
    return [{"fam": fams[i % 6], "seed": [seed, 1, i], "count": 2} for i in range(n)]


_MON = None


def _install():
    global _MON
    if _MON is not None:
        return _MON
    from fv import contracts
    from fv.oracle import fb
    from fv.gen import scen
    import forsys as fs
    mon = contracts.Monitor()
    inst = contracts.Installed()

    def reports_true_tensions(self, when):
        c = CTX.get("cur")
        if c is None:
            return True
        mon.count("post:solve_stress")
        at, r, fit = c["at"], c["r"], c["fit"]
        frame = self.frames[when]
        inv = {v: j for j, v in r.jmap.items()}
        byends = {}
        for k in at.E:
            byends.setdefault(frozenset(k), []).append(k)
        keys, npts = [], {}
        for b in frame.internal_big_edges:
            ids = b.get_vertices_ids()
            ja, jb = inv.get(ids[0]), inv.get(ids[-1])
            k = frozenset((ja, jb))
            if ja is None or jb is None or k not in at.E:
                mon.fail("unknown-interface", "every inferred interface is an interface of the tissue", path=ids[:5])
                return True
            keys.append(k)
            npts[k] = len(ids)
        ref_keys = fb.internal_keys(at, {k_: n_ - 2 for k_, n_ in npts.items()} | {k_: r.ks[k_] for k_ in at.E if k_ not in npts})
        if sorted(map(sorted, keys)) != sorted(map(sorted, ref_keys)):
            mon.fail("inferred-set", "inferred interfaces = internal interfaces", n_got=len(keys), n_ref=len(ref_keys))
            return True
        # ---- oracle system and decisiveness
        A0, junctions, _ = fb.matrix(at, keys=keys)
        if A0.shape[0] == 0:
            c["skip"] = "no-equation"
            return True
        ji_ = at.jifaces()
        if any(k_ not in set(keys) for j_ in junctions for k_ in ji_[j_]):
            # a used junction (four-fold, on the outline) is also pulled by an interface that is not an unknown: the
            # inferred equations cannot be in balance for the true tensions - outside the property's domain
            c["skip"] = "junction-with-external-interface"
            return True
        smin, smax = fb.sigma_min_aug(A0)
        T = np.array([at.T[k] for k in keys])
        x_true = T / T.mean()
        c["smin"] = smin
        if smin < 1e-3:
            c["skip"] = "not-unique"
            return True
        # ---- assembled coefficients as observed through the public matrix, in the oracle's row order
        fm = self.force_matrices[when]
        ji = at.jifaces()
        col = {k: i for i, k in enumerate(keys)}
        eps_all = 0.0
        for j in junctions:
            for k in ji[j]:
                if k in col:
                    a_, b_ = at.ends(k)
                    eps_all = max(eps_all, fb.eps_class(fit, at.PHI[k], npts[k],
                                                        max(abs(at.J[a_]), abs(at.J[b_])) / abs(at.J[a_] - at.J[b_])))

        def end_to_end(why, **extra):
            """the assembled system cannot be compared entry by entry: judge the reported tensions against the truth with
            the class-based first-order bound, when that bound is informative"""
            tol_class = 12 * eps_all * np.linalg.norm(x_true) / smin + 1e-9 + \
                {None: 1e-7 * (1 + 1 / smin), "lsq": 1e-5 * (1 + 1 / smin), "lsq_linear": 2e-4 + 2.5e-7 / smin ** 4}[c["method"]]
            if tol_class > 0.05 * x_true.max():
                c["skip"] = why
                return True
            got_ = np.array([b.tension for b in frame.internal_big_edges], float)
            err_ = float(np.abs(got_ - x_true).max()) if np.all(np.isfinite(got_)) else float("inf")
            c["tol"] = tol_class
            c["eps"] = eps_all
            if err_ > tol_class:
                mon.fail("tension", "reported tension = true tension / mean true tension of the inferred interfaces",
                         name="BigEdge.tension", err=err_, tol=tol_class, judged="end-to-end:" + why, eps=eps_all,
                         method=c["method"], fit=fit, fam=c["fam"], pose=c["pose"], resampled=c["ne"], **extra)
            c["worst"] = 0.0
            c["shape"] = list(A0.shape)
            c["straddle"] = 0
            c["path"] = getattr(fm, "_verif", {}).get("path")
            c["end_to_end"] = why
            return True
        rows = []
        for j in junctions:
            rr = fm.map_vid_to_row.get(r.jmap[j])
            if rr is None:
                # which junctions get equations is C02's subject; here only the consequence for the tensions counts
                return end_to_end("junction-missing-in-code", junction=int(j), degree=len(ji[j]))
            rows += [rr, rr + 1]
        if fm.matrix.shape[1] != len(keys) or len(fm.map_vid_to_row) != len(junctions):
            return end_to_end("system-shape-differs", got=list(fm.matrix.shape), want=list(A0.shape))
        A_code = fm.matrix[rows, :]
        dA = A_code - A0
        straddle = 0
        out_of_class = 0

        def tq(k, j):
            return fb.q_mirror(at.tangent(k, j), scen.first_segment(c["r2"], k, j))
        eps = 0.0
        dA_clean = dA.copy()
        for ri, j in enumerate(junctions):
            for k in ji[j]:
                if k in col:
                    a_, b_ = at.ends(k)
                    loc = max(abs(at.J[a_]), abs(at.J[b_])) / abs(at.J[a_] - at.J[b_])
                    e = fb.eps_class(fit, at.PHI[k], npts[k], loc)
                    eps = max(eps, e)
                    d = max(abs(dA[2 * ri, col[k]]), abs(dA[2 * ri + 1, col[k]]))
                    if d > e:
                        if npts[k] > 2 and abs(tq(k, j) - at.tangent(k, j)) > e:
                            straddle += 1
                        else:
                            out_of_class += 1
        c["eps"] = eps
        M0, _rhs0 = fb.augment(A0)
        pinv_norm = 1.0 / smin
        if out_of_class:
            # some assembled coefficient is farther from the analytic tangent than the fit precision allows (C02 reports
            # that per coefficient); judge end to end with the class-based first-order bound when it is informative
            tol_class = 12 * eps * np.linalg.norm(x_true) / smin + 1e-9
            if tol_class > 0.05 * x_true.max():
                c["skip"] = "coefficients-out-of-class"
                return True
            got_ = np.array([b.tension for b in frame.internal_big_edges], float)
            err_ = float(np.abs(got_ - x_true).max())
            c["tol"] = tol_class
            if err_ > tol_class:
                mon.fail("tension", "reported tension = true tension / mean true tension of the inferred interfaces",
                         name="BigEdge.tension", err=err_, tol=tol_class, coefficients_out_of_class=out_of_class, eps=eps,
                         method=c["method"], fit=fit, fam=c["fam"], pose=c["pose"], resampled=c["ne"])
            c["worst"] = 0.0
            c["shape"] = list(A0.shape)
            c["straddle"] = straddle
            c["path"] = getattr(fm, "_verif", {}).get("path")
            return True
        # solver tolerances measured on the unchanged tree with >= 10x margin (lsq_linear works on the normal equations:
        # its error grows like 1e-9 / sigma_min^4)
        solver_tol = {None: 1e-7 * (1 + 1 / smin), "lsq": 1e-5 * (1 + 1 / smin),
                      "lsq_linear": 2e-4 + 2.5e-7 / smin ** 4}[c["method"]]
        if straddle == 0:
            first = np.linalg.norm(dA @ x_true)
            tol = 5 * pinv_norm * first * (1 + pinv_norm * np.linalg.norm(dA, 2)) + solver_tol
        else:
            tol = solver_tol          # provisional; straddled systems are judged against the defect-aware model
        c["tol"] = tol
        if tol > 0.05 * x_true.max():
            c["skip"] = "tolerance-too-coarse"
            return True
        # ---- observation points
        forces = self.forces[when]
        obs = {
            "forces": [forces[i] for i in range(len(keys))] if len(forces) == len(keys) else None,
            "frame.forces": [frame.forces[i] for i in range(len(keys))] if len(frame.forces) == len(keys) else None,
            "BigEdge.tension": [b.tension for b in frame.internal_big_edges],
            "SmallEdge.tension(min)": [min(frame.edges[e].tension for e in b.edges) for b in frame.internal_big_edges],
            "SmallEdge.tension(max)": [max(frame.edges[e].tension for e in b.edges) for b in frame.internal_big_edges],
        }
        try:
            df = frame.get_tensions()
            ids = [int(i) for i in df["id"]]
            if ids != [b.big_edge_id for b in frame.internal_big_edges]:
                mon.fail("table-rows", "the tension table lists the internal interfaces in order")
            obs["table"] = [float(x) for x in df["stress"]]
        except Exception as exc:
            mon.fail("table-raises", "tension table", exc=repr(exc)[:200])
        ref = x_true
        model = None
        if straddle:
            # defect-aware reference: the coefficients the current code is known to assemble (F-MIRROR model) are taken
            # as observed; the reference solution is the oracle's own NNLS optimum of that system
            if c["method"] == "lsq_linear":
                # this back-end solves the normal equations bordered by the sum row (equality-constrained least
                # squares), which differs from the augmented system when the (mirrored) equations are inconsistent
                n_ = A_code.shape[1]
                M = np.zeros((n_ + 1, n_ + 1))
                M[:n_, :n_] = A_code.T @ A_code
                M[n_, :n_] = 1.0
                M[:n_, n_] = 1.0
                rhs = np.zeros(n_ + 1)
                rhs[n_] = n_
            else:
                M, rhs = fb.augment(A_code)
            if c["method"] is None and getattr(fm, "_verif", {}).get("path") == "inv" and M.shape[0] == M.shape[1]:
                # direct inversion accepted (all defaults do not reject negative values): exact solution of the system
                z = np.linalg.solve(M, rhs)
            else:
                z, _ = fb.nnls_ref(M, rhs)
            model = z[:-1]
        worst = 0.0
        for name, vals in obs.items():
            if vals is None or len(vals) != len(keys):
                mon.fail("observation-shape", f"{name} has one value per inferred interface", name=name)
                continue
            v = np.array(vals, float)
            mon.count("tension:compared", len(v))
            if not np.all(np.isfinite(v)):
                mon.fail("non-finite", "reported tensions are finite", name=name)
                continue
            err = np.abs(v - ref).max()
            if err <= tol:
                worst = max(worst, err / tol)
                if err / tol > 0.5 and model is None:
                    c["near"] = dict(name=name, ratio=float(err / tol), method=c["method"], fit=fit, smin=smin, tol=float(tol),
                                     err=float(err), path=getattr(self.force_matrices[when], "_verif", {}).get("path"))
                continue
            if model is not None:
                smq, _ = fb.sigma_min_aug(A_code)
                # lsq_linear (scipy trf, default tol 1e-10 on the cost) on the bordered normal equations of an INCONSISTENT
                # (mirrored) system is only good to ~1e-2 (probe p27): loose enough to separate the known finding from
                # anything else, which would show on the consistent systems as well
                tolq = {None: 1e-7, "lsq": 1e-4, "lsq_linear": 5e-3}[c["method"]] * (1 + 1 / max(smq, 1e-12))
                errq = np.abs(v - model).max()
                if errq <= tolq:
                    mon.fail("F-MIRROR", "reported tension = true tension / mean", name=name, err=float(err), tol=float(tol),
                             straddled_coefficients=straddle, err_vs_defect_model=float(errq))
                    continue
            i = int(np.argmax(np.abs(v - ref)))
            mon.fail("tension", "reported tension = true tension / mean true tension of the inferred interfaces",
                     name=name, err=float(err), tol=float(tol), got=float(v[i]), true=float(ref[i]), n=len(keys),
                     smin=smin, eps=eps, straddle=straddle, method=c["method"], fit=fit, fam=c["fam"], pose=c["pose"],
                     resampled=c["ne"], path=getattr(self.force_matrices[when], "_verif", {}).get("path"))
        c["worst"] = worst
        c["shape"] = list(A0.shape)
        c["straddle"] = straddle
        c["path"] = getattr(self.force_matrices[when], "_verif", {}).get("path")
        return True

    inst.ensure(fs.ForSys, "solve_stress", reports_true_tensions)
    _MON = mon
    return mon


def _one(rng, fam, mon, sigs, hist, metrics):
    from fv import env
    from fv.gen import scen, realise
    import forsys as fs
    from forsys import frames, virtual_edges as ve
    at = scen.base_tissue(rng, fam)
    at, _ = scen.maybe_sub(rng, at, p=0.25, min_cells=8)
    method = [None, "lsq", "lsq_linear"][int(rng.integers(3))]
    if method == "lsq" and len(at.cells) > 30:      # lmfit is slow: keep its systems moderate
        from fv.gen import tissue as _t
        at = at.sub(_t.random_connected_subset(rng, at, int(rng.integers(12, 30))))
    # unit changes are as likely as all rotations together: tissues given in metres (1e-6) ... kilo-pixels
    at, posed = scen.pose(rng, at, mode=["id", "rot", "axis", "sim", "reflect", "scale", "scale", "scale"][int(rng.integers(8))])
    if fam in ("vor", "vor4"):
        k = int(rng.integers(0, 17)) if rng.random() < 0.6 else (0, 16)
    else:
        k = int(rng.integers(1, 17)) if rng.random() < 0.6 else (1, 16)
    fit = ["dlite", "taubinSVD"][int(rng.integers(2))]
    ne = int(rng.integers(2, 13)) if rng.random() < 0.35 else None
    with env.Capture() as cap:
        r = realise.realise(at, k=k, rng=rng, spacing="random" if rng.random() < 0.3 else "uniform",
                            relabel=bool(rng.integers(2)), shifts=True, flips="random", edge_dirs=True)
        if posed["mode"] == "axis" and rng.random() < 0.6:
            # the first SEGMENT of a curved interface exactly parallel to an axis (its sign vector has an exact zero)
            at, seg = scen.axis_segment(rng, at, r)
            if seg:
                posed = dict(posed, segment=seg)
                hist["axis-parallel-first-segment"] = hist.get("axis-parallel-first-segment", 0) + 1
        v, e, c = r.vertices, r.edges, r.cells
        r2 = r
        if ne is not None:
            jc = at.jcells()
            two_pt_border = any(r.ks[key] == 0 and all(len(jc[j]) < 3 for j in key) for key in at.E)
            kw = {"replace_short_edges": False} if two_pt_border else {}
            try:
                v, e, c, _ = ve.generate_mesh(v, e, c, ne=ne, **kw)
            except Exception as exc:
                hist["resample-raised"] = hist.get("resample-raised", 0) + 1
                return
            # the realisation record must describe the resampled mesh: keep only surviving vertices per interface
            class _R:
                pass
            r2 = _R()
            r2.vertices, r2.jmap = v, r.jmap
            r2.imap = {key: [x for x in ch if x in v] for key, ch in r.imap.items()}
        fr = frames.Frame(0, v, e, c)
        solver = fs.ForSys({0: fr})
        CTX["cur"] = cur = {"at": at, "r": r, "r2": r2, "fit": fit, "fam": fam, "pose": posed, "method": method, "ne": ne}
        try:
            solver.build_force_matrix(when=0, circle_fit_method=fit)
            kw = {} if method is None else {"method": method}
            if method is None and rng.random() < 0.4:
                # all defaults (negative values are then not rejected; the true solution has none)
                hist["all-defaults"] = hist.get("all-defaults", 0) + 1
                solver.solve_stress(when=0)
            else:
                solver.solve_stress(when=0, allow_negatives=False, **kw)
        except Exception as exc:
            import traceback
            mon.fail("raises", "static inference returns a result", exc=repr(exc)[:200], method=method, fit=fit, fam=fam,
                     pose=posed, ne=ne, tb=traceback.format_exc()[-500:])
        CTX.pop("cur", None)
    if cap.unraisable:
        mon.fail("unraisable", "no swallowed destructor error", events=cap.unraisable[:2])
    hist[f"method:{method or 'default'}"] = hist.get(f"method:{method or 'default'}", 0) + 1
    hist[f"fit:{fit}"] = hist.get(f"fit:{fit}", 0) + 1
    hist[f"pose:{posed['mode']}"] = hist.get(f"pose:{posed['mode']}", 0) + 1
    if ne is not None:
        hist["resampled"] = hist.get("resampled", 0) + 1
    if "skip" in cur:
        hist["skip:" + cur["skip"]] = hist.get("skip:" + cur["skip"], 0) + 1
        return
    if "shape" in cur:
        if cur.get("end_to_end"):
            hist["end-to-end:" + cur["end_to_end"]] = hist.get("end-to-end:" + cur["end_to_end"], 0) + 1
        if cur.get("path"):
            hist["path:" + cur["path"]] = hist.get("path:" + cur["path"], 0) + 1
        if cur["straddle"]:
            hist["systems-with-straddle"] = hist.get("systems-with-straddle", 0) + 1
        sigs.append([fam, len(at.cells), cur["shape"][0] // 2, cur["shape"][1], sorted(set(r.ks.values()))[:5],
                     method or "default", fit, posed["mode"], ne])
        metrics["err_over_tol"] = max(metrics.get("err_over_tol", 0.0), cur["worst"])
        if cur.get("near"):
            hist["near:" + json.dumps(cur["near"])[:300]] = 1
        metrics["tol_max"] = max(metrics.get("tol_max", 0.0), cur["tol"])


def run_case(case):
    mon = _install()
    mon.reset()
    rng = np.random.default_rng(case["seed"])
    sigs, hist, metrics = [], {}, {}
    for _ in range(case["count"]):
        _one(rng, case["fam"], mon, sigs, hist, metrics)
    res = {"counters": dict(mon.evals), "hist": hist, "metrics": metrics}
    if mon.fails:
        res.update(status="violated", findings=mon.fails)
        if sigs:
            res["sigs"] = sigs
        return res
    if not sigs:
        res.update(status="inconclusive", reason="no-decisive-system")
        return res
    res.update(status="held", sigs=sigs, sig=sigs[0], observed={"systems": len(sigs), **metrics})
    return res
