"""C07 Results do not depend on labels, storage order or cell orientation.

Metamorphic comparator: the same physical tissue (same coordinates, same sample points) is realised once plainly and once
with random vertex/edge/cell ids (non-contiguous, not starting at 0), random construction order, random cyclic shift of
every cell's vertex list, random (or exhaustively all 2^cells) orientation patterns and random mesh-edge directions; both
are solved through the public API and compared per PHYSICAL interface / junction / cell."""
import numpy as np

ID = "C07"
RULE = ("equilibrium (Moebius) and non-equilibrium (random bulge) arc tissues and straight Voronoi tissues, 3..40 cells, "
        "0..12 interior points per interface (fixed per physical interface); relabelled realisation vs plain one; for "
        "tissues with <= 7 cells ALL 2^cells orientation patterns; both circle fits, default / lsq_linear back-ends (lsq_linear compared only where the bordered normal equations it solves are regular). "
        "distinct = (family, cells, unknowns, equations, fit, method, flipped cells); non-trivial = at least one equation"
        ' Added after the seeded rounds: axis-aligned lattices whose outline stays straight while the internal interfaces are curved; ids up to 2^53+.')
MIN_DECISIVE = {"quick": 150, "thorough": 2000}
REQUIRED_COUNTERS = ["pairs", "clause:interfaces", "clause:equations", "clause:tensions", "clause:pressures"]
TECHNIQUE = "metamorphic comparison of two realisations of one physical tissue through the public API, keyed by physical identity"
CASE_TIMEOUT = {"quick": 400, "thorough": 1200}
ASSUMPTIONS = ["cells are inserted into the dict in construction order, as every parser does (the property's stated assumption)",
               "tensions/pressures are compared only when the reference NNLS optimum is unique (strict complementarity + full "
               "column rank); otherwise equally optimal answers may legitimately differ"]


def anchors():
    from fv import env  # noqa
    from forsys import virtual_edges as ve, edge, pmatrix, cell, frames
    return [ve.create_edges_new, ve.get_partition, ve.eid_from_vertex, edge.BigEdge.__post_init__,
            pmatrix.PressureMatrix.get_row, cell.Cell.get_area_sign, frames.Frame.__post_init__]


def cases(seed, tier):
    q = tier == "quick"
    out = [{"fam": "label", "seed": [seed, 7, i], "count": 3} for i in range(60 if q else 800)]
    out += [{"fam": "orient-exh", "seed": [seed, 7, 10 ** 5 + i]} for i in range(6 if q else 60)]
    return out


def _compare(mon, a, b, at, r0, fit, sigs, hist, metrics, tag):
    from fv.oracle import fb
    mon.count("pairs")
    # (a) interfaces
    mon.count("clause:interfaces")
    if None in a.keys or None in b.keys or sorted(map(sorted, a.keys)) != sorted(map(sorted, b.keys)):
        mon.fail("interface-set", "same set of internal interfaces", n_ref=len(a.keys), n_var=len(b.keys), tag=tag)
        return
    # (b) equations
    mon.count("clause:equations")
    if set(a.rows) != set(b.rows):
        mon.fail("equation-set", "same equations (junction, axis)", only_ref=sorted(map(str, set(a.rows) - set(b.rows)))[:4],
                 only_var=sorted(map(str, set(b.rows) - set(a.rows)))[:4], tag=tag)
        return
    epsmax = 0.0
    for (j, k), ca in a.coef.items():
        cb = b.coef.get((j, k))
        a_, b_ = at.ends(k)
        loc = max(abs(at.J[a_]), abs(at.J[b_])) / abs(at.J[a_] - at.J[b_])
        eps = fb.eps_class(fit, at.PHI[k], r0.ks[k] + 2, loc)
        if getattr(r0, "kinked", None) == k:
            # neither a line nor an arc: the fit is an iterative least-squares estimate (converged to MINPACK's xtol 1.5e-8),
            # whose last digits depend on the order of the points
            eps = max(eps, 1e-7)
        epsmax = max(epsmax, eps)
        if cb is None or abs(ca - cb) > 20 * eps:
            mon.fail("coefficient", "same coefficient for every (junction, interface)", ref=[ca.real, ca.imag],
                     var=None if cb is None else [cb.real, cb.imag], eps=eps, tag=tag)
            return
        metrics["coef_diff_over_tol"] = max(metrics.get("coef_diff_over_tol", 0), abs(ca - cb) / (20 * eps))
    if len(set(b.coef) - set(a.coef)):
        mon.fail("coefficient-extra", "same coefficient for every (junction, interface)", tag=tag)
        return
    if not (a.unique and b.unique):
        hist["non-unique-optimum"] = hist.get("non-unique-optimum", 0) + 1
        return
    cond = max(a.cond, b.cond)
    tmax = max(1.0, max(abs(v) for v in a.tension.values()))
    solver_tol = 1e-6 if a.path in ("inv", "inv->nnls-fallback") else 1e-4     # lsq_linear / lsq: iterative, own tolerances
    tolT = (solver_tol + 40 * epsmax) * cond * tmax
    if "lsq_linear" in (a.path, b.path):
        # lsq_linear solves ANOTHER system, the bordered normal equations [[A^T A, 1], [1^T, 0]] without a multiplier column
        # in the force balance: it is singular as soon as A has a null vector of zero sum (an equilibrium tissue whose force
        # balance has a two-dimensional kernel), although the default system [[A, 1], [1^T, 0]] has a unique optimum.  Its
        # optimum is then a whole segment and the point an iterative solver stops at is not a function of the tissue
        # (thorough seed 12: 25-cell Moebius tissue, smallest singular value 1e-16 against 1.9e-2 for the next one).
        # Uniqueness and conditioning are therefore judged on the system that back-end really solved (hook record).
        for x in (a, b):
            rec = getattr(x.fm, "_verif", None) or {}
            if x.path != "lsq_linear" or rec.get("mprime") is None:
                continue
            sv = np.linalg.svd(np.array(rec["mprime"], float), compute_uv=False)
            if sv.min() <= 1e-7 * sv.max():
                hist["lsq_linear-system-singular"] = hist.get("lsq_linear-system-singular", 0) + 1
                return
            tolT = max(tolT, (1e-5 + 40 * epsmax) * float(sv.max() / sv.min()) * tmax)
    if tolT > 0.05 * tmax:
        hist["tolerance-too-coarse"] = hist.get("tolerance-too-coarse", 0) + 1
        return
    mon.count("clause:tensions")
    d = max(abs(a.tension[k] - b.tension[k]) for k in a.tension)
    if d > tolT:
        k = max(a.tension, key=lambda kk: abs(a.tension[kk] - b.tension[kk]))
        mon.fail("tension", "same tension for every physical interface", diff=d, tol=tolT, ref=a.tension[k], var=b.tension[k],
                 tag=tag, path_ref=a.path, path_var=b.path)
        return
    metrics["tension_diff_over_tol"] = max(metrics.get("tension_diff_over_tol", 0), d / tolT)
    if a.pressure is not None and b.pressure is not None:
        mon.count("clause:pressures")
        turn = max((abs(x.calculate_total_curvature(normalized=False)) for x in a.frame.internal_big_edges), default=0.0)
        tolP = 10 * max(a.pcond, b.pcond) ** 2 * (tolT * turn) + 1e-9
        dp = max(abs(a.pressure[c] - b.pressure[c]) for c in a.pressure)
        if set(a.pressure) != set(b.pressure) or dp > tolP:
            mon.fail("pressure", "same pressure for every physical cell", diff=dp, tol=tolP, tag=tag)
            return
        metrics["pressure_diff_over_tol"] = max(metrics.get("pressure_diff_over_tol", 0), dp / tolP)
    elif (a.pressure is None) != (b.pressure is None):
        mon.fail("pressure-availability", "the pressure step is well posed in both realisations or in neither", tag=tag)


def _geometry_extras(at, r, sseed, mode):
    """the same geometric special case applied to every relabelled realisation of one tissue (chosen by physical identity):
    'axis': the first segment of a curved interface exactly parallel to a coordinate axis;
    'kink': a four-vertex interface whose first interior vertex lies on the chord and whose second does not (neither a line
            nor an arc: whether it counts as straight must not depend on the direction it is stored in)"""
    from fv.gen import scen
    from fv.oracle import fb
    rg = np.random.default_rng([int(sseed), 77])
    if mode == "axis":
        scen.axis_segment(rg, r.at, r)
        return True
    cand = sorted((k for k in fb.internal_keys(at, r.ks) if r.ks[k] == 2 and abs(at.PHI[k]) < 1e-12), key=sorted)
    if not cand:
        return False
    k = cand[int(rg.integers(len(cand)))]
    a, b = at.ends(k)
    ch = r.imap[k]
    ids = ch if ch[0] == r.jmap[a] else ch[::-1]          # from a = min(key) to b, whatever the storage direction
    va, vb, v2 = r.vertices[ids[0]], r.vertices[ids[-1]], r.vertices[ids[2]]
    dx, dy = vb.x - va.x, vb.y - va.y
    v2.x, v2.y = float(v2.x - 0.05 * dy), float(v2.y + 0.05 * dx)
    r.kinked = k
    return True


def run_case(case):
    from fv import env, contracts, static
    from fv.gen import scen, realise, tissue
    mon = contracts.Monitor()
    rng = np.random.default_rng(case["seed"])
    sigs, hist, metrics = [], {}, {}
    n = case.get("count", 1)
    for _ in range(n):
        fam = ["mob", "arc", "vor"][int(rng.integers(3))]
        if case["fam"] == "orient-exh":
            base = scen.base_tissue(rng, fam, ncells=int(rng.integers(12, 24)))
            at = base.sub(tissue.random_connected_subset(rng, base, int(rng.integers(4, 8))))
        elif case["seed"][2] % 5 == 4:
            # axis-aligned lattice whose OUTLINE stays straight (runs of exactly collinear lowest / left-most vertices) while
            # the internal interfaces are curved, so that pressures are not trivially zero
            fam = ["lat-square", "lat-brick", "lat-hex", "lat-diamond"][int(rng.integers(4))]
            at = scen.base_tissue(rng, fam)
            at.PHI = {k: (float(rng.uniform(-0.4, 0.4)) if len(cs) == 2 else 0.0) for k, cs in at.E.items()}
            at.T = {k: float(rng.uniform(0.5, 1.5)) for k in at.E}
            hist["lattice-with-straight-outline"] = hist.get("lattice-with-straight-outline", 0) + 1
        else:
            at = scen.base_tissue(rng, fam, ncells=int(rng.integers(8, 45)))
            at, _ = scen.maybe_sub(rng, at, p=0.3, min_cells=3)
        ks = {k: int(rng.integers(0 if fam == "vor" else 1, 13 if not fam.startswith("lat-") else 5)) for k in at.E}
        fit = ["dlite", "taubinSVD"][int(rng.integers(2))]
        # lsq_linear is specified for consistent systems only (C05): use it on equilibrium tissues
        method = [None, None, "lsq_linear"][int(rng.integers(3))] if fam != "arc" else None
        sseed = int(rng.integers(1 << 30))
        spacing = "random" if rng.random() < 0.3 else "uniform"
        with env.Capture() as cap:
            try:
                r0 = realise.realise(at, k=ks, rng=np.random.default_rng(sseed), spacing=spacing)
                extra_mode = None
                if case["fam"] != "orient-exh" and case["seed"][2] % 7 in (2, 5):
                    extra_mode = "axis" if case["seed"][2] % 7 == 2 else "kink"
                    if not _geometry_extras(at, r0, sseed, extra_mode):
                        extra_mode = None
                    else:
                        hist["geometry:" + extra_mode] = hist.get("geometry:" + extra_mode, 0) + 1
                        if extra_mode == "axis":
                            # an exactly vanishing sign is forced to +1 (F-MIRROR's mechanism): the system is no longer
                            # consistent, which is outside the specification of lsq_linear (C05)
                            method = None
                a = static.solve(r0, fit=fit, method=method)
            except Exception as exc:
                hist["reference-raised"] = hist.get("reference-raised", 0) + 1
                continue
            if a.A.shape[0] == 0:
                continue
            variants = []
            if case["fam"] == "orient-exh":
                cids = sorted(at.cells)
                for mask in range(1, 1 << len(cids)):
                    variants.append({"flips": [cids[i] for i in range(len(cids)) if mask >> i & 1], "relabel": bool(mask % 3 == 0)})
                hist["exhaustive_orientation_patterns"] = len(variants) + 1
            else:
                variants = [{"flips": "random", "relabel": True}, {"flips": "all", "relabel": True}]
            for vi, var in enumerate(variants):
                try:
                    r1 = realise.realise(at, k=ks, rng=np.random.default_rng(sseed), spacing=spacing, relabel=var["relabel"],
                                         shifts=True, flips=var["flips"], edge_dirs=True, cell_order=True,
                                         id_base=int(rng.integers(0, 1000)))
                    if extra_mode:
                        _geometry_extras(at, r1, sseed, extra_mode)
                    b = static.solve(r1, fit=fit, method=method)
                except Exception as exc:
                    import traceback
                    mon.fail("variant-raises", "the relabelled realisation can be solved like the plain one",
                             exc=repr(exc)[:200], tb=traceback.format_exc()[-500:], var=str(var)[:100])
                    continue
                _compare(mon, a, b, at, r0, fit, sigs, hist, metrics, tag=f"{fam}/{fit}/{method}/flips={len(r1.flipset)}")
                sigs.append([fam, len(at.cells), a.A.shape[1], a.A.shape[0] // 2, fit, method or "default", len(r1.flipset)])
        if cap.unraisable:
            mon.fail("unraisable", "no destructor raises", events=cap.unraisable[:2])
    res = {"counters": dict(mon.evals), "hist": hist, "metrics": metrics}
    if mon.fails:
        res.update(status="violated", findings=mon.fails)
        if sigs:
            res["sigs"] = sigs
        return res
    if not sigs:
        res.update(status="inconclusive", reason="no-equation")
        return res
    res.update(status="held", sigs=sigs, sig=sigs[0], observed={"pairs": len(sigs), **metrics})
    return res
