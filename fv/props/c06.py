"""C06 Inference is invariant under similarity transforms and changes of units.

Metamorphic comparator: the same abstract tissue is realised in pose P0 and in pose P = S*P0 (identical labels, sampling and
options), both are solved through the public API and compared per physical interface / cell; the assembled coefficient pairs
must rotate / reflect with the tissue.  Series: dynamic tensions with adimensional velocities must not change when all time
stamps or all lengths are multiplied by a factor (up to the 3-decimal rounding of the velocity term).
F-MIRROR is frame dependent by construction: where it strikes is predicted per pose from public data only."""
import numpy as np

ID = "C06"
RULE = ("equilibrium (Moebius) and non-equilibrium (bulged) arc tissues and straight Voronoi tissues x similarity S: rotation "
        "by any angle (uniform, and angles that put a tangent within 1e-9..1e-1 rad of an axis), reflection, translation up to "
        "1e4 tissue sizes, scale 1e-3..1e3; series of 3 frames x time-unit factor 1e-3..1e3 and length-unit factor 1e-3..1e3 "
        "with adimensional velocities. distinct = (family, cells, unknowns, transform class, fit, method); non-trivial = at "
        "least one equation"
        ' Added after the seeded rounds: the same mesh objects moved in place and inferred again; tiny / huge units; pose pairs with an opening-angle limit; shipped Surface Evolver meshes in two poses.')
MIN_DECISIVE = {"quick": 120, "thorough": 1800}
REQUIRED_COUNTERS = ["pairs", "coefficients:compared", "tensions:compared", "pressures:compared", "dynamic:compared",
                     "limited:compared"]
REQUIRED_HIST = {"any": ["xf:rot", "xf:reflect", "xf:translate", "xf:scale", "xf:axis", "units:time", "units:length"]}
TECHNIQUE = ("metamorphic comparison of two poses / unit systems of one tissue through the public API; F-MIRROR predicted per "
             "pose from the package's own circle centres and decided with corrected matrices + reference NNLS")
CASE_TIMEOUT = {"quick": 500, "thorough": 1500}
ASSUMPTIONS = ["tolerance for tensions: (1e-6 + 40*eps_fit) * condition number of the free sub-system; eps_fit from the measured "
               "fit precision classes (they grow with the coordinate offset / interface length ratio)"]


def anchors():
    from fv import env  # noqa
    from forsys import edge, fmatrix, virtual_edges as ve, pmatrix, time_series as ts
    return [edge.BigEdge.get_vector_from_vertex, edge.BigEdge.get_versor_sign, edge.BigEdge.calculate_total_curvature,
            ve.calculate_circle_center, fmatrix.ForceMatrix.set_velocity_matrix, pmatrix.PressureMatrix.get_row,
            ts.TimeSeries.create_mapping]


def cases(seed, tier):
    q = tier == "quick"
    xfs = ["rot", "reflect", "translate", "scale", "axis", "sim"]
    out = [{"fam": "static", "xf": xfs[i % 6], "seed": [seed, 6, i], "count": 2} for i in range(96 if q else 1000)]
    out += [{"fam": "units", "which": ["time", "length"][i % 2], "seed": [seed, 6, 10 ** 5 + i]} for i in range(32 if q else 300)]
    dumps = ["initial_furrow.dmp"] if q else ["initial_furrow.dmp", "last_furrow.dmp", "12_12/step_22.dmp",
                                              "furrow_gauss_velocity/stage4.dmp"]
    for j, f in enumerate(dumps):
        for x in (["rot", "sim"] if q else ["rot", "reflect", "translate", "scale", "sim", "rot"]):
            out.append({"fam": "fixture", "file": f, "xf": x, "seed": [seed, 6, 2 * 10 ** 5 + 10 * j + len(out)]})
    return out


def _transform(rng, at, xf):
    from fv.oracle import fb
    d = at.bbox_diam()
    if xf == "rot":
        th = float(rng.uniform(0, 2 * np.pi))
        return at.similarity(theta=th), (th, False)
    if xf == "reflect":
        th = float(rng.uniform(0, 2 * np.pi))
        return at.similarity(theta=th, reflect=True), (th, True)
    if xf == "translate":
        sh = complex(*rng.uniform(-1, 1, 2)) * d * float(10 ** rng.uniform(0, 4))
        return at.similarity(shift=sh), (0.0, False)
    if xf == "scale":
        # other length units: micrometre-sized cells given in metres ... kilo-pixels
        u = rng.random()
        return at.similarity(scale=float(10 ** (rng.uniform(-7, -4) if u < 0.35 else rng.uniform(3, 5) if u < 0.5 else
                                                rng.uniform(-3, 3)))), (0.0, False)
    if xf == "axis":
        keys = fb.internal_keys(at)
        k = keys[int(rng.integers(len(keys)))]
        j = sorted(k)[int(rng.integers(2))]
        delta = float(10 ** rng.uniform(-9, -1)) * (1 if rng.random() < 0.5 else -1)
        target = [0, np.pi / 2, np.pi, -np.pi / 2][int(rng.integers(4))] + delta
        th = target - float(np.angle(at.tangent(k, j)))
        return at.similarity(theta=th), (th, False)
    th = float(rng.uniform(0, 2 * np.pi))
    refl = bool(rng.integers(2))
    sh = complex(*rng.uniform(-1, 1, 2)) * d * float(10 ** rng.uniform(0, 3))
    return at.similarity(scale=float(10 ** rng.uniform(-2, 2)), theta=th, shift=sh, reflect=refl), (th, refl)


def _frame_tangent(frame, path_ids, vid, fit):
    """(correctly oriented unit tangent, what the per-component sign forcing makes of it, precision class) of the interface
    with vertex path `path_ids` at its end `vid`, from the frame's public data only"""
    from fv.oracle import fb
    from forsys import virtual_edges as ve
    vs = [frame.vertices[i] for i in path_ids]
    vj = frame.vertices[vid]
    nb = vs[1] if vs[0].id == vid else vs[-2]
    fsg = complex(nb.x - vj.x, nb.y - vj.y)
    z = np.array([complex(v.x, v.y) for v in vs])
    ch = z[-1] - z[0]
    dev = np.abs(((z - z[0]).conjugate() * ch).imag).max() / max(abs(ch) ** 2, 1e-300) if len(z) > 2 and abs(ch) > 0 else 0.0
    if len(vs) == 2 or dev <= 1e-12:
        t = fsg / abs(fsg)
        e = 1e-12
    else:
        xc, yc = ve.calculate_circle_center(vs, method=fit)
        t = complex(-(vj.y - yc), vj.x - xc)
        t = t / abs(t)
        if (t.conjugate() * fsg).real < 0:
            t = -t
        e = fb.eps_class(fit, 2 * np.arctan(2 * dev), len(z), float(np.abs(z).max() / max(abs(ch), 1e-300)))
    return t, fb.q_mirror(t, fsg), e


def _static_case(case, mon, sigs, hist, metrics):
    from fv import env, static
    from fv.gen import scen, realise
    from fv.oracle import fb
    rng = np.random.default_rng(case["seed"])
    for _ in range(case["count"]):
        # axis-aligned lattices: in the reference pose tangents have exactly vanishing components, in the transformed one not
        fam = ["mob", "arc", "vor", "mob", "arc", "vor", "lat-square", "lat-brick", "lat-hex"][int(rng.integers(9))]
        at0 = scen.base_tissue(rng, fam, ncells=int(rng.integers(8, 45)))
        if not fam.startswith("lat-"):
            at0, _s = scen.maybe_sub(rng, at0, p=0.25, min_cells=5)
        if not fb.internal_keys(at0):
            continue
        at1, (th, refl) = _transform(rng, at0, case["xf"])
        ks = {k: int(rng.integers(0 if fam in ("vor", "lat-square", "lat-brick", "lat-hex") else 1, 10)) for k in at0.E}
        fit = ["dlite", "taubinSVD"][int(rng.integers(2))]
        sseed = int(rng.integers(1 << 30))
        relabel = bool(rng.integers(2))
        with env.Capture() as cap:
            try:
                kw = dict(k=ks, spacing="uniform", relabel=relabel, shifts=relabel, flips="random" if relabel else None)
                r0 = realise.realise(at0, rng=np.random.default_rng(sseed), **kw)
                if refl:
                    # a reflection reverses every cell cycle in the abstract tissue; keep the stored orientation pattern
                    pass
                inplace = (not refl) and rng.random() < 0.35
                lim = None
                if not inplace and rng.random() < (0.5 if case["xf"] in ("rot", "reflect", "sim", "axis") else 0.15):
                    # an opening-angle limit, placed clear of every actual opening (analytic tangents): which interfaces it
                    # leaves out may not depend on the pose
                    ji_ = at0.jifaces()
                    ik_ = set(fb.internal_keys(at0, ks))
                    opens = []
                    for j_ in fb.used_junctions(at0, False, ks):
                        ts_ = [at0.tangent(k_, j_) for k_ in ji_[j_] if k_ in ik_]
                        opens += [abs(np.angle(u_ / w_)) for i_, u_ in enumerate(ts_) for w_ in ts_[i_ + 1:]]
                    clear = max(1e-3, 4 * max([max(_eps(at0, k_, ks, fit), _eps(at1, k_, ks, fit)) for k_ in ik_] or [0.0]))
                    for _try in range(20):
                        cand = float(rng.uniform(0.55, 0.95) * np.pi)
                        if all(abs(cand - o_) > clear for o_ in opens):
                            lim = cand
                            break
                    if lim is not None:
                        hist["with-angle-limit"] = hist.get("with-angle-limit", 0) + 1
                a = static.solve(r0, fit=fit)
                aL = static.solve(r0, fit=fit, reuse=a, angle_limit=lim, pressures=False) if lim is not None else None
                pre = None
                if inplace:
                    # the user transforms the coordinates of the SAME mesh objects (as ForSys(cm=True) or a unit conversion
                    # does) and infers again on the same frame: nothing computed in the first pose may survive
                    r1 = realise.realise(at1, rng=np.random.default_rng(sseed), **kw)
                    # the pose-0 side of the F-MIRROR classification has to be read before the vertices move
                    pre = {(j, k): static.correct_tangent(r0, k, j, fit) for (j, k) in a.coef}
                    for vid, v in r0.vertices.items():
                        v.x, v.y = r1.vertices[vid].x, r1.vertices[vid].y
                    b = static.solve(r0, fit=fit, reuse=a)
                    bL = static.solve(r0, fit=fit, reuse=b, angle_limit=lim, pressures=False) if lim is not None else None
                    r1 = r0
                    hist["in-place"] = hist.get("in-place", 0) + 1
                else:
                    r1 = realise.realise(at1, rng=np.random.default_rng(sseed), **kw)
                    b = static.solve(r1, fit=fit)
                    bL = static.solve(r1, fit=fit, reuse=b, angle_limit=lim, pressures=False) if lim is not None else None
            except Exception as exc:
                import traceback
                mon.fail("raises", "both poses can be solved", exc=repr(exc)[:160], xf=case["xf"], fit=fit,
                         tb=traceback.format_exc()[-400:])
                continue
        if cap.unraisable:
            mon.fail("unraisable", "no destructor raises", events=cap.unraisable[:2])
        if a.A.shape[0] == 0:
            continue
        mon.count("pairs")
        hist["xf:" + case["xf"]] = hist.get("xf:" + case["xf"], 0) + 1
        if sorted(map(sorted, a.keys)) != sorted(map(sorted, b.keys)) or set(a.rows) != set(b.rows):
            mon.fail("structure", "same interfaces and equations in both poses", xf=case["xf"])
            continue

        def R(t):
            return np.exp(1j * th) * (np.conj(t) if refl else t)
        if lim is not None:
            # which interfaces the opening-angle limit leaves out may not depend on the pose
            mon.count("limited:compared")
            exa = {k_ for k_ in aL.keys if k_ not in set(aL.cols)}
            exb = {k_ for k_ in bL.keys if k_ not in set(bL.cols)}
            da = {j_ for j_, v_ in r0.jmap.items() if v_ in aL.fm.deletes}
            db = {j_ for j_, v_ in r1.jmap.items() if v_ in bL.fm.deletes}
            detail_ = dict(xf=case["xf"], fit=fit, limit=lim, only_in_pose0=[sorted(k_) for k_ in exa - exb][:4],
                           only_in_pose1=[sorted(k_) for k_ in exb - exa][:4], flagged_only_in_pose0=sorted(da - db)[:6],
                           flagged_only_in_pose1=sorted(db - da)[:6], fam=fam)
            if da != db:
                # the opening is measured between ALL interfaces at the vertex (outline ones included) AS ASSEMBLED, i.e. with
                # the mirrored tangents of F-MIRROR: a difference is that known finding only if the defect model (largest
                # opening between the mirrored tangents) reproduces the flag of the code in BOTH poses
                explained = True
                for j_ in da ^ db:
                    for r_, res_, fl_ in ((r0, a, j_ in da), (r1, b, j_ in db)):
                        vid_ = r_.jmap[j_]
                        qs_, es_ = [], []
                        for beid in res_.frame.vertices[vid_].own_big_edges:
                            t_, q_, e_ = _frame_tangent(res_.frame, res_.frame.big_edges[beid].get_vertices_ids(), vid_, fit)
                            qs_.append(q_)
                            es_.append(e_)
                        op_ = max([float(np.arccos(np.clip((u_.conjugate() * w_).real, -1, 1)))
                                   for i_, u_ in enumerate(qs_) for w_ in qs_[i_ + 1:]] or [0.0])
                        if abs(op_ - lim) > 4 * max(es_ + [1e-12]) and (op_ >= lim) != fl_:
                            explained = False
                mon.fail("F-MIRROR" if explained else "structure",
                         "the junctions flagged by an opening-angle limit do not depend on the pose", **detail_)
            elif exa != exb or set(aL.rows) != set(bL.rows):
                mon.fail("structure", "the interfaces left out by an opening-angle limit do not depend on the pose", **detail_)
        # coefficient pairs rotate / reflect with the tissue
        straddles = 0
        epsmax = 0.0
        obs_diff = 0.0
        Aa, Ab = a.A.copy(), b.A.copy()
        for (j, k), ca in a.coef.items():
            cb = b.coef.get((j, k))
            if cb is None:
                mon.fail("coefficient-missing", "same coefficients present", xf=case["xf"])
                break
            e0 = _eps(at0, k, ks, fit)
            e1 = _eps(at1, k, ks, fit)
            eps = max(e0, e1)
            epsmax = max(epsmax, eps)
            mon.count("coefficients:compared")
            if abs(cb - R(ca)) <= 20 * eps:
                obs_diff = max(obs_diff, abs(cb - R(ca)))
                metrics["coef_diff_over_tol"] = max(metrics.get("coef_diff_over_tol", 0), abs(cb - R(ca)) / (20 * eps))
                continue
            # where does the frame-dependent sign forcing strike?  (public data only)
            ta, fsa = pre[(j, k)] if pre is not None else static.correct_tangent(r0, k, j, fit)
            tb, fsb = static.correct_tangent(r1, k, j, fit)
            qa, qb = fb.q_mirror(ta, fsa), fb.q_mirror(tb, fsb)
            sa, sb = abs(qa - ta) > eps, abs(qb - tb) > eps
            if (sa or sb) and abs(ca - qa) <= 20 * eps and abs(cb - qb) <= 20 * eps and abs(tb - R(ta)) <= 40 * eps:
                straddles += 1
                # corrected entries for the reference comparison
                ra, rb = a.fm.map_vid_to_row[r0.jmap[j]], b.fm.map_vid_to_row[r1.jmap[j]]
                ia, ib = a.cols.index(k), b.cols.index(k)
                Aa[ra, ia], Aa[ra + 1, ia] = ta.real, ta.imag
                Ab[rb, ib], Ab[rb + 1, ib] = tb.real, tb.imag
                continue
            mon.fail("coefficient", "the assembled coefficient pairs rotate or reflect with the tissue", got=[cb.real, cb.imag],
                     want=[R(ca).real, R(ca).imag], eps=eps, xf=case["xf"], fit=fit, theta=th, reflect=refl)
            break
        else:
            if straddles:
                hist["pairs-with-straddle"] = hist.get("pairs-with-straddle", 0) + 1
            if not (a.unique and b.unique):
                hist["non-unique-optimum"] = hist.get("non-unique-optimum", 0) + 1
                sigs.append([fam, len(at0.cells), a.A.shape[1], case["xf"], fit, "structure-only"])
                continue
            cond = max(a.cond, b.cond)
            tmax = max(1.0, max(abs(v) for v in a.tension.values()))
            # the two poses were fitted independently: propagate the OBSERVED coefficient disagreement (each entry was
            # checked against its precision class above), not the class bound itself
            tolT = (1e-6 + 10 * obs_diff * np.sqrt(a.A.shape[1])) * cond * tmax
            if tolT > 0.05 * tmax:
                hist["tolerance-too-coarse"] = hist.get("tolerance-too-coarse", 0) + 1
                sigs.append([fam, len(at0.cells), a.A.shape[1], case["xf"], fit, "structure-only"])
                continue
            mon.count("tensions:compared")
            d = max(abs(a.tension[k] - b.tension[k]) for k in a.tension)
            # reference optimum of each pose's OBSERVED system (the solver itself is C05's subject)
            za, _ = fb.nnls_ref(a.M, a.rhs)
            zb, _ = fb.nnls_ref(b.M, b.rhs)
            xa = np.array([a.tension[k] for k in a.cols])
            xb = np.array([b.tension[k] for k in b.cols])
            self_ok = np.abs(xa - za[:-1]).max() <= tolT and np.abs(xb - zb[:-1]).max() <= tolT
            lam = max(abs(za[-1]), abs(zb[-1]))
            lam_sig = lam > 1e-7 * tmax
            if d > tolT:
                detail = dict(diff=d, tol=tolT, xf=case["xf"], fit=fit, straddled_coefficients=straddles, multiplier=float(lam),
                              fam=fam, cond=cond)
                if not self_ok:
                    mon.fail("tension", "reported tensions are not the optimum of the pose's own system", **detail)
                elif lam_sig and not straddles:
                    # the augmented system adds ONE unknown to the x- and the y-equation of every junction (a uniform
                    # force along (1,1)); off equilibrium it does not vanish and the optimum depends on the frame
                    mon.fail("F-MULTIPLIER-FRAME", "static tension of every physical interface is unchanged by the transform",
                             **detail)
                elif straddles:
                    zc, _ = fb.nnls_ref(*fb.augment(Aa))
                    perm = [b.cols.index(k) for k in a.cols]
                    zd, _ = fb.nnls_ref(*fb.augment(Ab[:, perm]))
                    dz = float(np.abs(zc[:-1] - zd[:-1]).max())
                    detail["corrected_diff"] = dz
                    lam_c = max(abs(zc[-1]), abs(zd[-1]))
                    detail["corrected_multiplier"] = float(lam_c)
                    # with the mirrored coefficients corrected the two poses must agree, unless the frame-dependent
                    # multiplier is active in one of the corrected systems as well (both mechanisms are known findings)
                    if dz <= tolT or lam_sig or lam_c > 1e-7 * tmax:
                        mon.fail("F-MIRROR", "static tension of every physical interface is unchanged by the transform", **detail)
                    else:
                        mon.fail("tension", "static tension unchanged (also after correcting the mirrored coefficients)", **detail)
                else:
                    mon.fail("tension", "static tension of every physical interface is unchanged by the transform", **detail)
                sigs.append([fam, len(at0.cells), a.A.shape[1], case["xf"], fit, "explained-by-known-mechanism"])
                continue
            metrics["tension_diff_over_tol"] = max(metrics.get("tension_diff_over_tol", 0), d / tolT)
            if a.pressure is not None and b.pressure is not None:
                mon.count("pressures:compared")
                turn = max((abs(x.calculate_total_curvature(normalized=False)) for x in a.frame.internal_big_edges), default=0.0)
                tolP = 10 * max(a.pcond, b.pcond) ** 2 * (tolT * turn + 1e-9 * tmax * turn) + 1e-9
                dp = max(abs(a.pressure[c] - b.pressure[c]) for c in a.pressure)
                if dp > tolP:
                    mon.fail("pressure" if not (straddles or lam_sig) else ("F-MIRROR" if straddles else "F-MULTIPLIER-FRAME"), "pressure of every physical cell is unchanged", diff=dp,
                             tol=tolP, xf=case["xf"])
                else:
                    metrics["pressure_diff_over_tol"] = max(metrics.get("pressure_diff_over_tol", 0), dp / tolP)
            sigs.append([fam, len(at0.cells), a.A.shape[1], case["xf"], fit, "full"])


def _eps(at, k, ks, fit):
    from fv.oracle import fb
    a_, b_ = at.ends(k)
    loc = max(abs(at.J[a_]), abs(at.J[b_])) / abs(at.J[a_] - at.J[b_])
    return fb.eps_class(fit, at.PHI[k], ks[k] + 2, loc)


def _units_case(case, mon, sigs, hist, metrics):
    from fv import env, dyn
    from fv.gen import scen, series
    from fv.oracle import fb
    import forsys as fs
    rng = np.random.default_rng(case["seed"])
    at0 = scen.base_tissue(rng, "arc", ncells=int(rng.integers(10, 35)))
    nfr = 3
    ats = dyn.random_series(rng, at0, nfr, frac=0.5)
    times = np.cumsum(rng.uniform(0.5, 2.0, nfr))
    factor = float(10 ** rng.uniform(-3, 3))
    if case["which"] == "time":
        ats2, times2 = ats, times * factor
    else:
        ats2, times2 = [a.similarity(scale=factor) for a in ats], times
    seed2 = int(rng.integers(1 << 30))
    k = int(rng.integers(1, 5))
    when = int(rng.integers(nfr))
    method = [None, "lsq_linear"][int(rng.integers(2))] if False else None
    res = []
    with env.Capture() as cap:
        for A_, T_ in ((ats, times), (ats2, times2)):
            s = dyn.build(np.random.default_rng(seed2), A_, T_, k=k, relabel=True)
            solver = fs.ForSys(s.frames, cm=False)
            if any(solver.mesh.mapping.get(t) is None for t in range(nfr - 1)):
                hist["pair-rejected"] = hist.get("pair-rejected", 0) + 1
                return
            try:
                solver.build_force_matrix(when=when)
                solver.solve_stress(when=when, b_matrix="velocity", adimensional_velocity=True, allow_negatives=False)
            except Exception as exc:
                mon.fail("raises", "dynamic inference returns a result in both unit systems", exc=repr(exc)[:160],
                         which=case["which"], factor=factor)
                return
            fm = solver.force_matrices[when]
            res.append((np.array([b.tension for b in solver.frames[when].internal_big_edges]), np.array(fm.matrix, float),
                        np.array(fm._verif["b"], float), fm._verif["path"]))
    (xa, Aa, ba, pa), (xb, Ab, bb, pb) = res
    if Aa.shape != Ab.shape or Aa.shape[0] == 0:
        return
    mon.count("dynamic:compared")
    hist["units:" + case["which"]] = hist.get("units:" + case["which"], 0) + 1
    M, _ = fb.augment(Aa)
    if M.shape[0] < M.shape[1]:
        hist["dynamic-not-unique"] = hist.get("dynamic-not-unique", 0) + 1
        return
    sv = np.linalg.svd(M, compute_uv=False)
    if sv.min() < 1e-6 * sv.max():
        hist["dynamic-not-unique"] = hist.get("dynamic-not-unique", 0) + 1
        return
    P = np.linalg.pinv(M)
    # both runs round their right-hand side to 3 decimals: entries may differ by one unit in the last place
    nflip = int(np.sum(ba != bb))
    tol = 1e-3 * np.abs(P).sum(axis=1)[:Aa.shape[1]] * (1 if nflip else 0) + 1e-6 * (1 + 1 / sv.min()) + \
        40 * 1e-5 * sv.max() / sv.min()
    if np.abs(ba - bb).max() > 1.0001e-3:
        mon.fail("rhs-units", "adimensional velocities do not depend on the unit of time / length", which=case["which"],
                 factor=factor, maxdiff=float(np.abs(ba - bb).max()))
        return
    if tol.max() > 0.05:
        hist["dynamic-tolerance-too-coarse"] = hist.get("dynamic-tolerance-too-coarse", 0) + 1
        return
    d = np.abs(xa - xb)
    if np.any(d > tol):
        mon.fail("dynamic-tension", "dynamic tensions are unchanged when all time stamps / lengths are multiplied by a factor",
                 which=case["which"], factor=factor, diff=float(d.max()), tol=float(tol.max()), paths=[pa, pb], flips=nflip)
        return
    metrics["dynamic_diff_over_tol"] = max(metrics.get("dynamic_diff_over_tol", 0), float((d / tol).max()))
    sigs.append(["units", case["which"], len(at0.cells), Aa.shape[1], round(np.log10(factor))])


def _fixture_case(case, mon, sigs, hist, metrics):
    """a shipped Surface Evolver mesh (real, noisy arcs) in two poses: same ids in both, so rows / columns correspond"""
    import os
    from fv import env
    from fv.oracle import fb
    import forsys as fs
    from forsys import surface_evolver as se, frames, virtual_edges as ve
    rng = np.random.default_rng(case["seed"])
    path = os.path.join("/repo/tests/data", case["file"])
    fit = ["dlite", "taubinSVD"][int(rng.integers(2))]
    with env.Capture() as cap:
        la, lb = se.SurfaceEvolver(path), se.SurfaceEvolver(path)
        zs = np.array([complex(v.x, v.y) for v in la.vertices.values()])
        d = max(zs.real.max() - zs.real.min(), zs.imag.max() - zs.imag.min())
        xf = case["xf"]
        th = float(rng.uniform(0, 2 * np.pi)) if xf in ("rot", "reflect", "sim") else 0.0
        refl = xf == "reflect" or (xf == "sim" and bool(rng.integers(2)))
        sc = float(10 ** rng.uniform(-3, 3)) if xf in ("scale", "sim") else 1.0
        sh = complex(*rng.uniform(-1, 1, 2)) * d * sc * float(10 ** rng.uniform(0, 3)) if xf in ("translate", "sim") else 0j
        for v in lb.vertices.values():
            z = complex(v.x, v.y)
            z = sc * np.exp(1j * th) * (np.conj(z) if refl else z) + sh
            v.x, v.y = float(z.real), float(z.imag)
        sols = []
        for lat in (la, lb):
            fr = frames.Frame(0, lat.vertices, lat.edges, lat.cells, gt=True)
            s_ = fs.ForSys({0: fr})
            s_.build_force_matrix(when=0, circle_fit_method=fit)
            s_.solve_stress(when=0, allow_negatives=False)
            sols.append((s_, fr))
    (sa, fa), (sb, fb_) = sols
    ma, mb = sa.force_matrices[0], sb.force_matrices[0]
    mon.count("pairs")
    hist["xf:" + xf] = hist.get("xf:" + xf, 0) + 1
    if ma.big_edges_to_use != mb.big_edges_to_use or ma.map_vid_to_row != mb.map_vid_to_row or ma.matrix.shape != mb.matrix.shape:
        mon.fail("structure", "same interfaces and equations in both poses", xf=xf, file=case["file"])
        return

    def R(t):
        return np.exp(1j * th) * (np.conj(t) if refl else t)

    def predicted(frame, path_ids, vid):
        """(correctly oriented tangent, what the per-component sign forcing makes of it) from public data only"""
        vs = [frame.vertices[i] for i in path_ids]
        vj = frame.vertices[vid]
        nb = vs[1] if vs[0].id == vid else vs[-2]
        fsg = complex(nb.x - vj.x, nb.y - vj.y)
        z = np.array([complex(v.x, v.y) for v in vs])
        ch = z[-1] - z[0]
        dev = np.abs(((z - z[0]).conjugate() * ch).imag).max() / max(abs(ch) ** 2, 1e-300) if len(z) > 2 else 0.0
        if len(vs) == 2 or dev <= 1e-12:
            t = fsg / abs(fsg)
        else:
            xc, yc = ve.calculate_circle_center(vs, method=fit)
            t = complex(-(vj.y - yc), vj.x - xc)
            t = t / abs(t)
            if (t.conjugate() * fsg).real < 0:
                t = -t
        return t, fb.q_mirror(t, fsg)
    A, B = np.array(ma.matrix, float), np.array(mb.matrix, float)
    straddles = 0
    tolc0 = 1e-6 if fit == "taubinSVD" else 5e-4         # SE arcs are noisy: the two independent dlite fits differ more

    def tol_of(c):
        """floor measured on the shipped meshes, raised to the precision class of the fit for this interface in either pose
        (bulge angle estimated from the sagitta; a far-away origin and a nearly straight interface both cost digits)"""
        e = tolc0
        for frame, m in ((fa, ma), (fb_, mb)):
            z = np.array([complex(frame.vertices[i].x, frame.vertices[i].y) for i in m.big_edges_to_use[c]])
            ch = z[-1] - z[0]
            if len(z) > 2 and abs(ch) > 0:
                dev = np.abs(((z - z[0]).conjugate() * ch).imag).max() / abs(ch) ** 2
                e = max(e, fb.eps_class(fit, 2 * np.arctan(2 * dev), len(z), float(np.abs(z).max() / abs(ch))))
        return e
    tols = {}
    obs = 0.0
    for vid, row in ma.map_vid_to_row.items():
        for c in range(A.shape[1]):
            ca, cb = complex(A[row, c], A[row + 1, c]), complex(B[row, c], B[row + 1, c])
            if ca == 0 and cb == 0:
                continue
            mon.count("coefficients:compared")
            if c not in tols:
                tols[c] = tol_of(c)
            tolc = tols[c]
            if abs(cb - R(ca)) <= tolc:
                obs = max(obs, abs(cb - R(ca)))
                continue
            ta, qa = predicted(fa, ma.big_edges_to_use[c], vid)
            tb, qb = predicted(fb_, mb.big_edges_to_use[c], vid)
            if (abs(qa - ta) > tolc or abs(qb - tb) > tolc) and abs(ca - qa) <= tolc and abs(cb - qb) <= tolc and abs(tb - R(ta)) <= 10 * tolc:
                straddles += 1
                continue
            mon.fail("coefficient", "the assembled coefficient pairs rotate or reflect with the tissue", got=[cb.real, cb.imag],
                     want=[R(ca).real, R(ca).imag], xf=xf, fit=fit, file=case["file"])
            return
    metrics["fixture_coef_diff_" + fit] = max(metrics.get("fixture_coef_diff_" + fit, 0.0), float(obs))
    xa = np.array([b.tension for b in fa.internal_big_edges])
    xb = np.array([b.tension for b in fb_.internal_big_edges])
    Ma, ra = fb.augment(A)
    za, _ = fb.nnls_ref(Ma, ra)
    zb, _ = fb.nnls_ref(*fb.augment(B))
    s = np.linalg.svd(Ma, compute_uv=False)
    cond = s.max() / max(s.min(), 1e-300)
    tol = (1e-6 + 10 * obs * np.sqrt(A.shape[1])) * cond
    mon.count("tensions:compared")
    d = float(np.abs(xa - xb).max())
    lam = max(abs(za[-1]), abs(zb[-1]))
    if tol > 0.05:
        hist["tolerance-too-coarse"] = hist.get("tolerance-too-coarse", 0) + 1
    elif d > tol:
        self_ok = np.abs(xa - za[:-1]).max() <= tol and np.abs(xb - zb[:-1]).max() <= tol
        detail = dict(diff=d, tol=tol, xf=xf, fit=fit, file=case["file"], straddled_coefficients=straddles, multiplier=float(lam))
        if not self_ok:
            mon.fail("tension", "reported tensions are not the optimum of the pose's own system", **detail)
        elif straddles:
            mon.fail("F-MIRROR", "static tension of every physical interface is unchanged by the transform", **detail)
        elif lam > 1e-7:
            mon.fail("F-MULTIPLIER-FRAME", "static tension of every physical interface is unchanged by the transform", **detail)
        else:
            mon.fail("tension", "static tension of every physical interface is unchanged by the transform", **detail)
    else:
        metrics["fixture_tension_diff_over_tol"] = max(metrics.get("fixture_tension_diff_over_tol", 0), d / tol)
    if cap.unraisable:
        mon.fail("unraisable", "no destructor raises", events=cap.unraisable[:2])
    sigs.append(["fixture", case["file"], xf, fit, straddles])


def run_case(case):
    from fv import contracts
    mon = contracts.Monitor()
    sigs, hist, metrics = [], {}, {}
    if case["fam"] == "static":
        _static_case(case, mon, sigs, hist, metrics)
    elif case["fam"] == "fixture":
        _fixture_case(case, mon, sigs, hist, metrics)
    else:
        _units_case(case, mon, sigs, hist, metrics)
    res = {"counters": dict(mon.evals), "hist": hist, "metrics": metrics}
    if mon.fails:
        res.update(status="violated", findings=mon.fails, sigs=sigs)
        return res
    if not sigs:
        res.update(status="inconclusive", reason="nothing-decisive")
        return res
    res.update(status="held", sigs=sigs, sig=sigs[0], observed={"pairs": len(sigs), **metrics})
    return res
