"""C04 Pressure step: Young-Laplace equations with a zero-sum least-squares solution.

Four monitors: (1) post-condition on BigEdge.calculate_total_curvature (turning estimator), (2) post-condition on
PressureMatrix._build_matrix (row form, centre-of-curvature side decided by a geometric point-in-polygon probe),
(3) post-condition on ForSys.solve_pressure (zero-sum least-squares solution, linearity), (4) physics on equilibrium
Moebius tissues against analytic Young-Laplace pressures."""
import numpy as np

ID = "C04"
RULE = ("Moebius-image equilibrium tissues (jittered-hexagonal, uniform and Poisson-disc sites) with 3..17 uniformly "
        "sampled points per interface, straight Voronoi tissues (all pressures vanish), sub-tissues containing cells "
        "without internal interface, cells stored counter-clockwise / clockwise / mixed, interfaces stored in either "
        "direction, arbitrary tension vectors (linearity); plus stand-alone arcs for the turning estimator (n=2..17, "
        "turning up to 1.5 rad, scales 1e-3..1e3, both directions; 30 % sampled non-uniformly, spacing ratio within 1+-0.3, judged on the sampling-independent clauses only). distinct = (family, cells, interfaces, points, "
        "orientation pattern); non-trivial = at least one internal interface"
        ' Added after the seeded rounds: reference tensions set on every interface, exact zero tensions, a hub cell with 128..149 neighbours, a second pressure step on a kept object judged against the current frame.')
MIN_DECISIVE = {"quick": 120, "thorough": 1500}
REQUIRED_COUNTERS = ["post:total_curvature", "arc:turning", "row:checked", "row:side", "solution:checked", "physics:checked",
                     "linearity:checked"]
TECHNIQUE = ("runtime contracts on calculate_total_curvature / PressureMatrix._build_matrix / ForSys.solve_pressure against "
             "closed-form arcs, a geometric centre-side probe, an independent constrained least-squares solve and analytic "
             "Young-Laplace pressures of Moebius tissues")
CASE_TIMEOUT = {"quick": 400, "thorough": 1200}
ASSUMPTIONS = ["a Moebius image of a Maxwell-reciprocal Voronoi tissue is in full mechanical equilibrium: the pressure jumps "
               "T*curvature integrate consistently over the cell-adjacency graph (residual checked per case)"]
CTX = {}


def anchors():
    from fv import env  # noqa
    import forsys as fs
    from forsys import pmatrix, general_matrix as gm, edge, frames
    return [pmatrix.PressureMatrix._build_matrix, pmatrix.PressureMatrix.get_row, gm.GeneralMatrix.solve_system,
            gm.GeneralMatrix.add_lagrange_multiplier, edge.BigEdge.calculate_curvature,
            edge.BigEdge.calculate_total_curvature, frames.Frame.assign_pressures, fs.ForSys.solve_pressure,
            fs.ForSys.build_pressure_matrix]


def cases(seed, tier):
    q = tier == "quick"
    out = [{"fam": "arcs", "seed": [seed, 4, i], "count": 250} for i in range(8 if q else 80)]
    kinds = ["hex", "hex", "uniform", "disc"]
    for i in range(48 if q else 700):
        out.append({"fam": "mob", "site": kinds[i % 4], "seed": [seed, 4, 1000 + i], "count": 2})
    for i in range(12 if q else 150):
        out.append({"fam": "straight", "seed": [seed, 4, 10 ** 5 + i], "count": 2})
    for i in range(3 if q else 24):
        # one cell with very many neighbours (128..149 internal interfaces)
        out.append({"fam": "hub", "seed": [seed, 4, 2 * 10 ** 5 + i], "count": 1})
    return out


def _pip(pt, poly):
    """ray casting; poly: complex array"""
    x, y = pt.real, pt.imag
    inside = False
    n = len(poly)
    for i in range(n):
        a, b = poly[i], poly[(i + 1) % n]
        if (a.imag > y) != (b.imag > y):
            xi = a.real + (y - a.imag) * (b.real - a.real) / (b.imag - a.imag)
            if xi > x:
                inside = not inside
    return inside


_MON = None


def _install():
    global _MON
    if _MON is not None:
        return _MON
    from fv import contracts
    import forsys as fs
    from forsys import pmatrix, edge
    mon = contracts.Monitor()
    inst = contracts.Installed()

    def turning_estimate_is_sane(self, normalized, result):
        mon.count("post:total_curvature")
        n = len(self.vertices)
        if normalized:
            return True
        z = np.array(self.xs) + 1j * np.array(self.ys)
        if not np.isfinite(result):
            mon.fail("turning-nonfinite", "turning estimate is finite", n=n)
            return True
        if n == 2 and abs(result) > 1e-12:
            mon.fail("turning-twopoint", "turning of a two-point interface is zero", got=float(result))
        # collinear -> zero
        if n > 2:
            ch = z[-1] - z[0]
            dev = np.abs(((z - z[0]).conjugate() * ch).imag).max() / max(abs(ch) ** 2, 1e-300)
            if dev <= 1e-15 and abs(result) > 1e-9 * n:
                mon.fail("turning-straight", "turning of a straight interface is zero", got=float(result), n=n)
        return True

    def rows_are_young_laplace(self, result):
        c = CTX.get("cur")
        if c is None:
            return True
        at, r = c["at"], c["r"]
        from fv.gen import scen
        pmap, inv = scen.physical_maps(r)
        cinv = {v: k for k, v in r.cmap.items()}
        L, rhs = self.lhs_matrix, self.rhs_matrix
        cols = [cid for cid in self.mapping_order if self.mapping_order[cid] not in self.removed_columns]
        if L.shape != (len(self.big_edges_to_use), len(cols)):
            mon.fail("pressure-shape", "one row per internal interface, one column per cell that touches one",
                     shape=list(L.shape), n_edges=len(self.big_edges_to_use), n_cols=len(cols))
            return True
        touched = set()
        for i, b in enumerate(self.big_edges_to_use):
            mon.count("row:checked")
            key = pmap.get(tuple(b.get_vertices_ids()))
            if key is None or len(at.E[key]) != 2:
                mon.fail("row-interface", "rows belong to internal interfaces")
                continue
            phys = {r.cmap[x] for x in at.E[key]}
            touched |= phys
            row = L[i]
            nz = {cols[j]: row[j] for j in np.nonzero(row)[0]}
            if set(nz) != phys or sorted(nz.values()) != [-1.0, 1.0]:
                mon.fail("row-form", "each row has exactly one +1 and one -1, on the two cells the interface separates",
                         got={str(k): v for k, v in nz.items()}, expected=sorted(phys))
                continue
            turning = b.calculate_total_curvature(normalized=False)
            if abs(abs(rhs[i]) - abs(b.tension * turning)) > 1e-12 * (1 + abs(rhs[i])):
                mon.fail("row-rhs", "|rhs| = tension x |total turning|", rhs=float(rhs[i]), tension=float(b.tension),
                         turning=float(turning))
            # centre-of-curvature side by a geometric probe, independent of storage direction and cell orientation
            phi = at.PHI[key]
            npts = len(b.vertices)
            if abs(rhs[i]) > 1e-9 and npts >= 3 and abs(phi) > 1e-6:
                ch = r.imap[key]
                zs = np.array([complex(r.vertices[x].x, r.vertices[x].y) for x in ch])
                mid = zs[len(zs) // 2]
                cm = 0.5 * (zs[0] + zs[-1])
                probe = mid + 0.5 * (cm - mid)
                sides = []
                for cid in phys:
                    poly = np.array([complex(v.x, v.y) for v in self.frame.cells[cid].vertices])
                    if _pip(probe, poly):
                        sides.append(cid)
                if len(sides) != 1:
                    mon.count("row:side-undecided")
                    continue
                mon.count("row:side")
                # for a NEGATIVE tension the pressure is lower on the centre-of-curvature side
                plus = [k for k, v in nz.items() if v * np.sign(rhs[i]) * (np.sign(b.tension) or 1.0) > 0][0]
                if plus != sides[0]:
                    mon.fail("row-side", "(pressure of the cell on the centre-of-curvature side) - (other) = tension x "
                             "turning", plus_cell=plus, centre_side=sides[0], rhs=float(rhs[i]), phi=phi,
                             orient=c.get("orient"))
        c["touched"] = touched
        c["cols"] = cols
        return True

    def pressures_are_zero_sum_least_squares(self, when):
        c = CTX.get("cur")
        if c is None:
            return True
        pm = self.pressure_matrices[when]
        if "cols" not in c:
            # the assembly contract did not run in this step (e.g. a kept object was returned): judge the system the solver
            # holds against the frame as it is NOW
            mon.count("build:judged-held-object")
            rows_are_young_laplace(pm, None)
            if "cols" not in c:
                return True
        frame = self.frames[when]
        L, rhs, cols = pm.lhs_matrix, pm.rhs_matrix, c["cols"]
        df = frame.get_pressures()
        got = {int(i): float(p) for i, p in zip(df["id"], df["pressure"])}
        stored = {cid: cell.pressure for cid, cell in frame.cells.items()}
        if any(abs(got[k] - stored[k]) > 0 for k in stored):
            mon.fail("pressure-table", "the table reports each cell's own stored pressure")
        # connectivity of the cells that have an internal interface
        parent = {cid: cid for cid in cols}

        def find(x):
            while parent[x] != x:
                x = parent[x]
            return x
        for i in range(L.shape[0]):
            js = np.nonzero(L[i])[0]
            if len(js) == 2:
                a, b = find(cols[js[0]]), find(cols[js[1]])
                parent[a] = b
        ncomp = len({find(x) for x in cols})
        c["ncomp"] = ncomp
        if ncomp != 1:
            return True
        mon.count("solution:checked")
        n = len(cols)
        # basis of the sum-zero subspace
        Q = np.linalg.svd(np.ones((1, n)))[2][1:].T if n > 1 else np.zeros((1, 0))
        y = np.linalg.lstsq(L @ Q, rhs, rcond=None)[0] if n > 1 else np.zeros(0)
        ref = Q @ y
        s = np.linalg.svd(L @ Q, compute_uv=False) if n > 1 else np.array([1.0])
        cond = s.max() / max(s.min(), 1e-300)
        v = np.array([got[cid] for cid in cols])
        scale = max(np.abs(ref).max(), np.abs(rhs).max(), 1e-300)
        if not np.all(np.isfinite(v)):
            mon.fail("pressure-nonfinite", "pressures are finite")
            return True
        tol = 1e-8 * cond ** 2 * scale + 1e-12
        err = np.abs(v - ref).max()
        if err > tol:
            mon.fail("pressure-solution", "reported pressures = least-squares solution of the equations that sums to zero",
                     err=float(err), tol=float(tol), cond=float(cond), n=n)
        else:
            c["worst_sol"] = err / tol
        allp = np.array(list(got.values()))
        if abs(allp.sum()) > 1e-9 * max(np.abs(allp).max(), 1e-300) * len(allp) * max(cond, 1):
            mon.fail("pressure-sum", "pressures sum to zero", total=float(allp.sum()))
        for cid, p in got.items():
            if cid not in cols and p != 0:
                mon.fail("pressure-untouched", "cells touching no internal interface get zero", cid=cid, p=p)
        c["reported"] = got
        c["cond"] = float(cond)
        return True

    inst.ensure(edge.BigEdge, "calculate_total_curvature", turning_estimate_is_sane)
    inst.ensure(pmatrix.PressureMatrix, "_build_matrix", rows_are_young_laplace)
    inst.ensure(fs.ForSys, "solve_pressure", pressures_are_zero_sum_least_squares)
    _MON = mon
    return mon


def _arc_bigedge(z):
    from forsys import vertex as fvx, edge as fe
    vs = [fvx.Vertex(i, float(p.real), float(p.imag)) for i, p in enumerate(z)]
    es = [fe.SmallEdge(i, vs[i], vs[i + 1]) for i in range(len(vs) - 1)]
    return fe.BigEdge(0, vs), es


def _arcs_case(case, mon, sigs):
    rng = np.random.default_rng(case["seed"])
    worst = 0.0
    for _ in range(case["count"]):
        n = int(rng.integers(2, 18))
        theta = float(rng.uniform(0.0, 1.5)) if rng.random() < 0.85 else 0.0
        sgn = 1 if rng.random() < 0.5 else -1
        R = 1.0
        scale = 10 ** rng.uniform(-3, 3)
        rot = np.exp(1j * rng.uniform(0, 2 * np.pi))
        off = complex(*rng.uniform(-10, 10, 2)) * scale
        # 30 % of the arcs are sampled NON-uniformly (smooth warp, neighbouring spacings within 1 +- 0.3): the clauses that
        # hold for every sampling (straight -> zero, reversal, scaling) are judged there, the value clause is not
        # (C04 fixes the value on uniformly sampled arcs only; DESIGN section 8, round 7).
        warped = n >= 3 and rng.random() < 0.3
        u = np.linspace(0, 1, n)
        if warped:
            amp, m, ph = rng.uniform(0.05, 0.3), int(rng.integers(1, 3)), rng.uniform(0, 2 * np.pi)
            u = u + amp / (2 * np.pi * m) * (np.sin(2 * np.pi * m * u + ph) - np.sin(ph))
            mon.count("arc:warped")
        if theta == 0.0:
            z = u + 0j
        else:
            a = theta * u
            z = R * np.exp(1j * sgn * a) / theta          # unit length
        zz = z * scale * rot + off
        be, keep = _arc_bigedge(zz)
        est = be.calculate_total_curvature(normalized=False)
        mon.count("arc:turning")
        if theta == 0.0:
            if abs(est) > 1e-9 * n:
                mon.fail("turning-straight", "turning of a straight interface is zero", got=float(est), n=n)
        elif n >= 3 and not warped:
            ref = theta * (n - 2) / (n - 1)
            rel = abs(abs(est) - ref) / ref
            worst = max(worst, rel / 0.03)
            if rel > 0.03:
                mon.fail("turning-value", "turning of a uniformly sampled n-point arc = true turning x (n-2)/(n-1) within 3%",
                         got=float(est), ref=ref, n=n, theta=theta)
        # reversal: sign flips, magnitude unchanged
        be2, keep2 = _arc_bigedge(zz[::-1].copy())
        est2 = be2.calculate_total_curvature(normalized=False)
        if abs(est2 + est) > 1e-9 * (abs(est) + 1e-12) + 1e-12:
            mon.fail("turning-reversal", "the estimate changes sign, not magnitude, when the point order is reversed",
                     fwd=float(est), rev=float(est2), n=n)
        # scaling
        s2 = 10 ** rng.uniform(-3, 3)
        be3, keep3 = _arc_bigedge((zz - off) * s2)
        est3 = be3.calculate_total_curvature(normalized=False)
        if abs(est3 - est) > 1e-7 * abs(est) + 1e-10 * n:
            mon.fail("turning-scale", "the estimate is unchanged by uniform scaling", a=float(est), b=float(est3), s=float(s2))
        sigs.append(["arc", n, round(theta, 1), sgn, int(warped)])
    return worst


def _yl_pressures(at, keys2):
    """analytic Young-Laplace pressures by integrating T*curvature over a spanning tree; returns (p dict, residual)"""
    # orientation: cells are counter-clockwise; the cell whose cycle runs a->b (a=min) has the interface on its right...
    left = {}
    for cid, cyc in at.cells.items():
        for a, b in zip(cyc, cyc[1:] + cyc[:1]):
            if a < b:
                left[frozenset((a, b))] = cid          # interior of a ccw cell is to the LEFT of a->b
    jump = {}
    adj = {c: [] for c in at.cells}
    for k in keys2:
        cs = at.E[k]
        Lc = left.get(k)
        Rc = [c for c in cs if c != Lc][0] if Lc in cs else None
        if Lc is None or Rc is None:
            continue
        phi = at.PHI[k]
        kap = abs(2 * phi) / at.arc_length(k)
        # tangent at a rotated by +phi from the chord, then turning clockwise for phi > 0: centre on the RIGHT of a->b
        centre, other = (Rc, Lc) if phi > 0 else (Lc, Rc)
        d = at.T[k] * kap
        jump[(centre, other)] = d
        adj[centre].append((other, -d))
        adj[other].append((centre, d))
    p = {}
    res = 0.0
    for start in at.cells:
        if start in p or not adj[start]:
            continue
        p[start] = 0.0
        st = [start]
        while st:
            x = st.pop()
            for y, d in adj[x]:
                if y not in p:
                    p[y] = p[x] + d
                    st.append(y)
                else:
                    res = max(res, abs(p[y] - (p[x] + d)))
    return p, res


def _tissue_case(case, mon, sigs, hist, metrics):
    from fv import env
    from fv.gen import scen, realise, tissue
    from fv.oracle import fb
    import forsys as fs
    from forsys import frames
    rng = np.random.default_rng(case["seed"])
    for _ in range(case["count"]):
        base = tissue.voronoi(rng, n=int(rng.integers(10, 60)), kind=case.get("site", "hex"))
        if case["fam"] == "mob":
            at = tissue.random_mobius(rng, base, strength=10 ** rng.uniform(-1.5, 0.8), max_phi=0.7)
        elif case["fam"] == "hub":
            at = tissue.bulge(rng, tissue.lattice("rosette", int(rng.integers(128, 150)), int(rng.integers(9))), 0.05)
            at.T = {kk: float(rng.uniform(0.5, 1.5)) for kk in at.E}
        else:
            at = base
        if rng.random() < 0.4 and case["fam"] != "hub":
            at = at.sub(tissue.random_connected_subset(rng, at, int(rng.integers(3, len(at.cells) + 1))))
        if case["fam"] not in ("hub", "straight") and case["seed"][2] % 5 == 3:
            # a small cell wedged into an interface: its two neighbours then share TWO separate (differently curved) interfaces
            wd = tissue.with_wedge(np.random.default_rng([case["seed"][2], len(at.J), 4]), at)
            if wd is not None:
                at = wd
                (pk, w_) = at.meta["wedge"]
                at.PHI[frozenset((pk[0], w_[0]))] = 0.15 if frozenset((pk[0], w_[0])) in at.E else 0.0
                for key_ in list(at.E):
                    if w_[1] in key_ and (pk[0] in key_ or pk[1] in key_):
                        at.PHI[key_] = -0.1
                    if w_[0] in key_ and (pk[0] in key_ or pk[1] in key_):
                        at.PHI[key_] = 0.15
                # ... and the wedge itself is left out (a small hole), so that every interface of the mesh is one interface of
                # the generating tissue
                at = at.sub([c_ for c_ in at.cells if c_ != max(at.cells)])
                hist["wedged-hole"] = hist.get("wedged-hole", 0) + 1
        at, posed = scen.pose(rng, at, mode=["id", "rot", "sim", "reflect"][int(rng.integers(4))])
        k = int(rng.integers(1, 16))
        orient = ["ccw", "cw", "mixed"][int(rng.integers(3))]
        flips = {"ccw": None, "cw": "all", "mixed": "random"}[orient]
        with env.Capture() as cap:
            r = realise.realise(at, k=k, rng=rng, relabel=bool(rng.integers(2)), shifts=True, flips=flips,
                                edge_dirs=True, cell_order=bool(rng.integers(2)))
            fr = frames.Frame(0, r.vertices, r.edges, r.cells)
            if not fr.internal_big_edges:
                continue
            # reference tensions, as a Surface Evolver dump provides them: they must never enter the pressure equations
            for b_ in fr.big_edges.values():
                b_.gt = float(rng.uniform(0.5, 2.0))
            solver = fs.ForSys({0: fr})
            pmap, inv = scen.physical_maps(r)
            keys = [pmap[tuple(b.get_vertices_ids())] for b in fr.internal_big_edges]
            T = np.array([at.T[kk] for kk in keys])

            def run(tensions):
                for b, t in zip(fr.internal_big_edges, tensions):
                    b.tension = float(t)
                CTX["cur"] = cur = {"at": at, "r": r, "orient": orient}
                try:
                    solver.build_pressure_matrix(when=0)
                    solver.solve_pressure(when=0, method="lagrange_pressure")
                except Exception as exc:
                    import traceback
                    mon.fail("pressure-raises", "the pressure step returns a result", exc=repr(exc)[:200],
                             tb=traceback.format_exc()[-400:], orient=orient)
                CTX.pop("cur", None)
                return cur
            cur = run(T / T.mean())
            if "reported" not in cur:
                hist["not-connected" if cur.get("ncomp", 1) != 1 else "no-solution"] = hist.get("not-connected", 0) + 1
                continue
            rep1 = cur["reported"]
            metrics["solution_err_over_tol"] = max(metrics.get("solution_err_over_tol", 0), cur.get("worst_sol", 0))
            cols = cur["cols"]
            # straight tissue: everything vanishes
            if case["fam"] == "straight":
                mx = max(abs(v) for v in rep1.values())
                if mx > 1e-9 * T.max() / T.mean() * max(cur["cond"], 1) ** 2:
                    mon.fail("straight-pressure", "all pressures vanish on a straight-edged tissue", max=mx)
            # linearity: scale and add
            T2 = rng.uniform(0.2, 2.0, len(T))
            T2[rng.random(len(T)) < 0.25] = 0.0        # slack interfaces: exactly zero is a legitimate tension
            neg_ = rng.random(len(T)) < 0.15
            T2[neg_] = -T2[neg_]                         # arbitrary tension vectors: linearity does not stop at zero
            alpha = float(rng.uniform(0.3, 3.0))
            cur2 = run(T2)
            cur3 = run(alpha * T / T.mean() + T2)
            if "reported" in cur2 and "reported" in cur3:
                mon.count("linearity:checked")
                a = np.array([alpha * rep1[c_] + cur2["reported"][c_] for c_ in cols])
                b = np.array([cur3["reported"][c_] for c_ in cols])
                tol = 1e-8 * max(cur["cond"], 1) ** 2 * max(np.abs(b).max(), 1e-12)
                if np.abs(a - b).max() > tol:
                    mon.fail("linearity", "pressures depend linearly on the tensions", err=float(np.abs(a - b).max()), tol=tol)
            # physics
            if case["fam"] == "mob" and k >= 3 and len(cols) >= 4:
                keys2 = [kk for kk in at.E if len(at.E[kk]) == 2]
                pyl, resid = _yl_pressures(at, keys2)
                cinv = {v: kk for kk, v in r.cmap.items()}
                y = np.array([pyl.get(cinv[c_], np.nan) for c_ in cols]) / T.mean()
                x = np.array([rep1[c_] for c_ in cols])
                if np.all(np.isfinite(y)) and np.std(y) > 1e-12 and np.std(x) > 1e-15:
                    mon.count("physics:checked")
                    scale_p = max(np.abs(y).max(), 1e-300)
                    if resid / T.mean() > 1e-6 * scale_p:
                        hist["yl-not-integrable"] = hist.get("yl-not-integrable", 0) + 1
                    else:
                        r_yl = float(np.corrcoef(x, y)[0, 1])
                        # the oracle's own solution of the code's equations with the ANALYTIC turning
                        rows = []
                        for i, b in enumerate(fr.internal_big_edges):
                            kk = keys[i]
                            n_ = len(b.vertices)
                            theta = abs(2 * at.PHI[kk]) * (n_ - 2) / (n_ - 1)
                            rows.append(theta * at.T[kk] / T.mean())
                        # rebuild oriented rows independently: +1 on the centre side (analytic), -1 on the other
                        left = {}
                        for cid, cyc in at.cells.items():
                            for a_, b_ in zip(cyc, cyc[1:] + cyc[:1]):
                                if a_ < b_:
                                    left[frozenset((a_, b_))] = cid
                        Lm = np.zeros((len(keys), len(cols)))
                        cpos = {c_: j for j, c_ in enumerate(cols)}
                        for i, kk in enumerate(keys):
                            Lc = left[kk]
                            Rc = [c_ for c_ in at.E[kk] if c_ != Lc][0]
                            centre, other = (Rc, Lc) if at.PHI[kk] > 0 else (Lc, Rc)
                            Lm[i, cpos[r.cmap[centre]]] = 1
                            Lm[i, cpos[r.cmap[other]]] = -1
                        n_ = len(cols)
                        Q = np.linalg.svd(np.ones((1, n_)))[2][1:].T
                        pmod = Q @ np.linalg.lstsq(Lm @ Q, np.array(rows), rcond=None)[0]
                        r_model = float(np.corrcoef(x, pmod)[0, 1]) if np.std(pmod) > 1e-15 else 1.0
                        r_model_yl = float(np.corrcoef(pmod, y)[0, 1]) if np.std(pmod) > 1e-15 else 1.0
                        metrics["min_r_yl_neg"] = max(metrics.get("min_r_yl_neg", -1.0), -r_yl)
                        hist["r_yl>=0.9" if r_yl >= 0.9 else "r_yl<0.9"] = hist.get("r_yl>=0.9" if r_yl >= 0.9 else "r_yl<0.9", 0) + 1
                        if r_model < 0.999:
                            mon.fail("pressure-model", "reported pressures solve the Young-Laplace equations of the first "
                                     "sentence (oracle's own assembly with analytic turning)", r_model=r_model, r_yl=r_yl,
                                     k=k, orient=orient)
                        elif r_yl < 0.9:
                            mon.fail("F-YL-TURNING" if r_model_yl < 0.92 else "physics",
                                     "correlation with the analytic Young-Laplace pressures >= 0.9", r_yl=r_yl,
                                     r_model=r_model, r_model_yl=r_model_yl, site=case.get("site"), k=k, cells=len(cols))
        if cap.unraisable:
            mon.fail("unraisable", "no destructor raises", events=cap.unraisable[:2])
        sigs.append([case["fam"], len(at.cells), len(keys), k + 2, orient])


def run_case(case):
    mon = _install()
    mon.reset()
    sigs, hist, metrics = [], {}, {}
    if case["fam"] == "arcs":
        metrics["turning_err_over_3pct"] = _arcs_case(case, mon, sigs)
    else:
        _tissue_case(case, mon, sigs, hist, metrics)
    hist["fam:" + case["fam"]] = 1
    res = {"counters": dict(mon.evals), "hist": hist, "metrics": metrics}
    if mon.fails:
        res.update(status="violated", findings=mon.fails)
        if sigs:
            res["sigs"] = sigs
        return res
    if not sigs:
        res.update(status="inconclusive", reason="no-internal-interface")
        return res
    res.update(status="held", sigs=sigs, sig=sigs[0], observed={"n": len(sigs), **metrics})
    return res
