"""C10 Results are a pure function of frame data and the last call's arguments.

History checker with an executable reference model: a random operation sequence is applied to one ForSys object (exceptions
are recorded and the sequence goes on, as a user would); after every operation the reported state of the touched frame is
compared with that of a FRESH object (regenerated from the generator parameters) on which only the minimal replay for that
frame is executed, and the reported state of every other frame must not have moved at all."""
import os
import numpy as np

ID = "C10"
RULE = ("random sequences (length 4..12) of build_force_matrix(when, angle_limit, circle_fit_method, ignore_four) / "
        "solve_stress(when, method in {default, lsq, lsq_linear, fix_stress}, b_matrix, allow_negatives, adimensional_velocity, "
        "initial_condition) / build_pressure_matrix / solve_pressure / get_system_velocity_per_frame(interval, angle_limit) "
        "over the 3..4 frames of generated series (8..25 cells, independently renumbered frames) and of the shipped furrow "
        "series, in any frame order. distinct = (series, operation sequence signature); non-trivial = at least one "
        "successful solve compared with a fresh object"
        ' Added after the seeded rounds: a quarter of the series contain a lens-shaped cell.')
MIN_DECISIVE = {"quick": 60, "thorough": 1200}
REQUIRED_COUNTERS = ["ops", "fresh:compared", "untouched:compared", "structure:checked"]
TECHNIQUE = "history checker: reported state after every operation vs a fresh object running the minimal replay (executable reference model)"
CASE_TIMEOUT = {"quick": 600, "thorough": 1800}
ASSUMPTIONS = ["the reference model: reported tensions of frame t depend on (last force build before the last successful stress "
               "solve, that solve); reported pressures on (tension state at the last pressure build, that build, the last "
               "successful pressure solve)"]
FIX = "/repo/tests/data"


def anchors():
    from fv import env  # noqa
    import forsys as fs
    from forsys import fmatrix, frames, general_matrix as gm
    return [fs.ForSys.solve_stress, fs.ForSys.solve_pressure, fs.ForSys.build_force_matrix, fs.ForSys.build_pressure_matrix,
            fs.ForSys.get_system_velocity_per_frame, fmatrix.ForceMatrix.solve, fmatrix.ForceMatrix.fix_one_stress,
            frames.Frame.assign_tensions_to_big_edges, frames.Frame.assign_pressures, frames.Frame.get_tensions,
            gm.GeneralMatrix.solve_system]


def cases(seed, tier):
    q = tier == "quick"
    out = [{"fam": "series", "seed": [seed, 10, i], "nseq": 2} for i in range(64 if q else 700)]
    out += [{"fam": "furrow", "seed": [seed, 10, 10 ** 5 + i], "nseq": 1} for i in range(2 if q else 30)]
    out += [{"fam": "static-ids", "seed": [seed, 10, 2 * 10 ** 5 + i], "nseq": 2} for i in range(8 if q else 80)]
    return out


# ---------------------------------------------------------------------------------------------------------
def make_solver(case_fam, gseed):
    """regenerable ForSys object: identical frames every time it is called with the same arguments"""
    from fv import dyn
    from fv.gen import scen
    import forsys as fs
    if case_fam == "furrow":
        from forsys import surface_evolver as se, frames
        fr = {}
        for t in range(3):
            lat = se.SurfaceEvolver(os.path.join(FIX, "furrow_gauss_velocity", f"stage{t}.dmp"))
            fr[t] = frames.Frame(t, lat.vertices, lat.edges, lat.cells, time=float(t), gt=True)
        return fs.ForSys(fr, cm=False), 3
    rng = np.random.default_rng(gseed)
    if case_fam == "static-ids":
        # unrelated static tissues under keys 0..n-1 whose frame ids are a permutation of the keys: results are stored by KEY
        from fv.gen import realise
        from forsys import frames
        nfr = int(rng.integers(2, 4))
        ids = [int(x) for x in rng.permutation(nfr)]
        fr = {}
        for t in range(nfr):
            a_ = scen.base_tissue(rng, "arc", ncells=int(rng.integers(8, 20)))
            r_ = realise.realise(a_, k=int(rng.integers(2, 5)), rng=rng, relabel=True)
            fr[t] = frames.Frame(ids[t], r_.vertices, r_.edges, r_.cells, time=float(t))
        return fs.ForSys(fr, cm=False), nfr
    at0 = scen.base_tissue(rng, "arc", ncells=int(rng.integers(10, 36)))
    if len(at0.cells) > 25:
        from fv.gen import tissue
        at0 = at0.sub(tissue.random_connected_subset(rng, at0, int(rng.integers(8, 25))))
    if gseed[2] % 4 == 1:
        # a lens-shaped cell (two junctions): two different interfaces join the same pair of junctions
        from fv.gen import tissue
        lens = tissue.with_lens(np.random.default_rng(gseed + [7]), at0)
        if lens is not None:
            at0 = lens
    nfr = int(rng.integers(3, 5))
    ats = dyn.random_series(rng, at0, nfr, frac=0.5)
    # segmentation-like noise on the interior points: the two circle fits then differ materially, as on real data
    s = dyn.build(rng, ats, np.cumsum(rng.uniform(0.5, 2.0, nfr)), k=int(rng.integers(2, 6)) if gseed[2] % 5 else int(rng.integers(0, 2)),
                  relabel=True, jitter=float(rng.choice([0.0, 0.05, 0.15])))
    return fs.ForSys(s.frames, cm=False), nfr


def apply_op(solver, op):
    """returns None on success, the exception otherwise"""
    k = op["op"]
    try:
        if k == "B":
            solver.build_force_matrix(when=op["t"], metadata={"ignore_four": op["ign"]}, angle_limit=op["lim"],
                                      circle_fit_method=op["fit"])
        elif k == "S":
            kw = {"allow_negatives": op["neg"]}
            if op["method"]:
                kw["method"] = op["method"]
            if op["vel"]:
                kw["b_matrix"] = "velocity"
                kw["adimensional_velocity"] = op["adim"]
            if op.get("ic") is not None:
                kw["initial_condition"] = list(op["ic"])
            solver.solve_stress(when=op["t"], **kw)
        elif k == "PB":
            solver.build_pressure_matrix(when=op["t"])
        elif k == "PS":
            solver.solve_pressure(when=op["t"], method="lagrange_pressure")
        elif k == "V":
            solver.get_system_velocity_per_frame(time_interval=op["interval"], angle_limit=op["lim"])
    except Exception as exc:
        return exc
    return None


def snapshot(solver, t):
    fr = solver.frames[t]
    snap = {}
    f = solver.forces.get(t) if isinstance(solver.forces, dict) else None
    snap["forces"] = None if f is None else [float(f[i]) for i in range(len(f))] if all(i in f for i in range(len(f))) else "bad-keys"
    ff = getattr(fr, "forces", None)
    snap["frame.forces"] = None if ff is None else [float(ff[i]) for i in range(len(ff))] if all(i in ff for i in range(len(ff))) else "bad-keys"
    try:
        df = fr.get_tensions(with_border=True)
        snap["table.ids"] = [int(i) for i in df["id"]]
        snap["table.stress"] = [float(x) for x in df["stress"]]
        dfi = fr.get_tensions()
        snap["table.internal_ids"] = [int(i) for i in dfi["id"]]
    except Exception as exc:
        snap["table"] = "raises:" + repr(exc)[:80]
    try:
        dp = fr.get_pressures()
        snap["pressures.ids"] = [int(i) for i in dp["id"]]
        snap["pressures"] = [None if not np.isfinite(x) else float(x) for x in dp["pressure"]]
    except Exception as exc:
        snap["pressures"] = "raises:" + repr(exc)[:80]
    p = solver.pressures
    if isinstance(p, dict):
        pv = p.get(t)
        snap["store.pressures"] = None if pv is None else [float(x) for x in pv]
        snap["store.keyed"] = True
    else:
        snap["store.pressures"] = "not-keyed"
        snap["store.keyed"] = False
    snap["edge.tension"] = [float(e.tension) for e in fr.edges.values()]
    snap["cell.pressure"] = [None if c.pressure is None else float(c.pressure) for c in fr.cells.values()]
    return snap


def snap_equal(a, b, tol=1e-12):
    diffs = []
    for k in a:
        if k in ("store.pressures", "store.keyed"):
            continue
        x, y = a[k], b.get(k)
        if isinstance(x, list) and isinstance(y, list) and len(x) == len(y):
            for i, (u, v) in enumerate(zip(x, y)):
                if u is None or v is None:
                    if u is not v:
                        diffs.append((k, i, u, v))
                        break
                elif abs(u - v) > tol * max(1.0, abs(u), abs(v)):
                    diffs.append((k, i, u, v))
                    break
        elif x != y:
            diffs.append((k, None, str(x)[:60], str(y)[:60]))
    return diffs


def structure_check(mon, solver, t, last_solve_fm):
    """clauses that must hold on every snapshot of a solved frame"""
    fr = solver.frames[t]
    f = solver.forces.get(t)
    if f is None:
        return
    mon.count("structure:checked")
    internal = fr.internal_big_edges
    n = len(internal)
    if len([k for k in f if isinstance(k, (int, np.integer))]) != n:
        mon.fail("forces-length", "the i-th reported tension belongs to the i-th internal interface", n=n, got=len(f))
        return
    if getattr(fr, "forces", None) is not f and dict(getattr(fr, "forces", {})) != dict(f):
        mon.fail("frame-forces", "frame t holds frame t's tensions")
    fm = last_solve_fm
    for i, b in enumerate(internal):
        ex = fm is not None and b.vertices[0].id in fm.deletes and b.vertices[-1].id in fm.deletes
        if ex:
            if f[i] != -1:
                mon.fail("excluded-not-minus-one", "excluded interfaces are reported as -1", i=i, got=float(f[i]))
            continue
        if abs(b.tension - f[i]) > 1e-12 * max(1, abs(f[i])):
            mon.fail("bigedge-tension", "the i-th reported tension equals the tension stored on the i-th internal interface",
                     i=i, reported=float(f[i]), stored=float(b.tension))
            break
        et = [fr.edges[e].tension for e in b.edges]
        if any(abs(x - f[i]) > 1e-12 * max(1, abs(f[i])) for x in et):
            mon.fail("mesh-edge-tension", "... and on each of its mesh edges", i=i, reported=float(f[i]))
            break
    for b in fr.big_edges.values():
        if b.external and b.tension != 0:
            mon.fail("external-nonzero", "external interfaces stay at zero", id=b.big_edge_id, tension=float(b.tension))
            break
    try:
        df = fr.get_tensions()
        if [int(i) for i in df["id"]] != [b.big_edge_id for b in internal]:
            mon.fail("table-order", "the tension table lists exactly the internal interfaces in that order")
    except Exception as exc:
        mon.fail("table-raises", "tension table", exc=repr(exc)[:100])
    p = solver.pressures
    if not isinstance(p, dict):
        mon.fail("F-PRESSURE-STORE", "the per-frame result store holds frame t's pressures under key t",
                 type=type(p).__name__)
    elif p.get(t) is not None:
        pm = solver.pressure_matrices.get(t)
        if pm is not None:
            for cid, cell in fr.cells.items():
                if cell.pressure is not None and abs(cell.pressure - p[t][pm.mapping_order[cid]]) > 0:
                    mon.fail("cell-pressure", "each cell carries its own pressure", cid=cid)
                    break


def random_ops(rng, nfr, n_internal, static_only=False):
    ops = []
    built = set()
    pbuilt = set()
    L = int(rng.integers(5, 13))
    # a small palette of option values per sequence, so that a frame is revisited with the SAME value of one option and
    # another value of a second one (caches / state keyed on a subset of the options)
    lims = [np.inf, float(rng.uniform(0.62 * np.pi, 0.9 * np.pi))]
    while len(ops) < L:
        t = int(rng.integers(nfr))
        r = rng.random()
        if r < 0.15 or t not in built:
            lim = lims[int(rng.integers(2))] if rng.random() < 0.8 else [float(rng.uniform(0.6 * np.pi, np.pi)), np.pi][int(rng.integers(2))]
            ops.append({"op": "B", "t": t, "lim": lim, "fit": ["dlite", "taubinSVD"][int(rng.integers(2))],
                        "ign": bool(rng.random() < 0.2)})
            built.add(t)
        elif r < 0.58:
            method = [None, None, None, "lsq", "lsq_linear", "fix_stress"][int(rng.integers(6))]
            op = {"op": "S", "t": t, "method": method, "vel": bool(rng.random() < 0.4) and not static_only, "adim": bool(rng.integers(2)),
                  "neg": bool(rng.integers(2)), "ic": None}
            if method == "lsq" and rng.random() < 0.5:
                op["ic"] = [float(x) for x in rng.uniform(0.5, 1.5, n_internal[t])]
            ops.append(op)
        elif r < 0.70:
            ops.append({"op": "PB", "t": t})
            pbuilt.add(t)
        elif r < 0.93:
            if t in pbuilt:
                ops.append({"op": "PS", "t": t})
            else:
                ops.append({"op": "PB", "t": t})
                pbuilt.add(t)
        elif static_only:
            continue
        else:
            iv = sorted(int(x) for x in rng.choice(nfr, size=int(rng.integers(1, nfr + 1)), replace=False))
            ops.append({"op": "V", "interval": iv, "lim": [np.inf, float(rng.uniform(0.7 * np.pi, np.pi))][int(rng.integers(2))]})
            built.update(iv)
    return ops


def minimal_replay(log, t):
    """indices of the operations that determine the reported state of frame t (see ASSUMPTIONS)"""
    def last_build_before(i):
        for j in range(i - 1, -1, -1):
            o, ok = log[j]
            if (o["op"] == "B" and o["t"] == t) or (o["op"] == "V" and t in o["interval"]):
                if ok or o["op"] == "V":
                    return j
        return None
    succ_S = [i for i, (o, ok) in enumerate(log) if o["op"] == "S" and o["t"] == t and ok]
    succ_PS = [i for i, (o, ok) in enumerate(log) if o["op"] == "PS" and o["t"] == t and ok]
    need = set()
    if succ_PS:
        ps = succ_PS[-1]
        pb = max(i for i, (o, ok) in enumerate(log[:ps]) if o["op"] == "PB" and o["t"] == t and ok)
        need |= {ps, pb}
        s_pb = [i for i in succ_S if i < pb]
        if s_pb:
            need.add(s_pb[-1])
            b = last_build_before(s_pb[-1])
            if b is not None:
                need.add(b)
    if succ_S:
        s = succ_S[-1]
        need.add(s)
        b = last_build_before(s)
        if b is not None:
            need.add(b)
    return sorted(need)


def run_case(case):
    from fv import env, contracts
    mon = contracts.Monitor()
    rng = np.random.default_rng(case["seed"])
    sigs, hist = [], {}
    for q in range(case["nseq"]):
        gseed = [int(x) for x in case["seed"]] + [q]
        with env.Capture() as cap:
            solver, nfr = make_solver(case["fam"], gseed)
            n_internal = {t: len(solver.frames[t].internal_big_edges) for t in range(nfr)}
            ops = random_ops(rng, nfr, n_internal, static_only=(case["fam"] == "static-ids"))
            log = []
            last_fm = {}
            compared = 0
            broken_fix = set()      # frames whose last solve was a failed fix_stress (known finding): partial write-back
            for i, op in enumerate(ops):
                before = {t: snapshot(solver, t) for t in range(nfr)}
                exc = apply_op(solver, op)
                mon.count("ops")
                ok = exc is None
                log.append((op, ok))
                hist[f"op:{op['op']}"] = hist.get(f"op:{op['op']}", 0) + 1
                if not ok:
                    hist["op-raised"] = hist.get("op-raised", 0) + 1
                    if not (op["op"] == "S" and op["method"] == "fix_stress" and isinstance(exc, (ValueError, IndexError))):      # known finding F-FIXSTRESS (C05): the branch fails for every input
                        mon.fail("op-raises", "operations on a valid series succeed", op=str(op)[:200], exc=repr(exc)[:160],
                                 history=str([(o["op"], o.get("t"), o.get("method")) for o, _ in log])[:400])
                touched = {op["t"]} if "t" in op else set(op["interval"])
                if op["op"] == "S" and ok:
                    last_fm[op["t"]] = solver.force_matrices[op["t"]]
                after = {t: snapshot(solver, t) for t in range(nfr)}
                # frames not named by the operation must not move at all
                for t in range(nfr):
                    if t in touched:
                        continue
                    mon.count("untouched:compared")
                    d = snap_equal(before[t], after[t], tol=0.0)
                    if d:
                        mon.fail("other-frame-changed", "solving other frames never changes what is reported for a frame",
                                 frame=t, op=str(op)[:120], diff=str(d[0])[:160])
                # builds must not change what is reported either
                if op["op"] in ("B", "V", "PB"):
                    for t in touched:
                        d = snap_equal(before[t], after[t], tol=0.0)
                        if d:
                            mon.fail("build-changed-report", "building a matrix does not change what is reported", frame=t,
                                     op=op["op"], diff=str(d[0])[:160])
                if op["op"] == "S":
                    if ok:
                        broken_fix.discard(op["t"])
                    elif op["method"] == "fix_stress" and isinstance(exc, (ValueError, IndexError)):
                        broken_fix.add(op["t"])
                for t in touched:
                    n_before = len(mon.fails)
                    structure_check(mon, solver, t, last_fm.get(t))
                    if t in broken_fix:
                        # the broken fix_stress branch (known finding F-FIXSTRESS) writes part of its result before it fails
                        for f_ in mon.fails[n_before:]:
                            f_["detail"]["original_mech"] = f_["mech"]
                            f_["mech"] = "F-FIXSTRESS"
                # touched frame vs a fresh object with the minimal replay
                if op["op"] in ("S", "PS") and ok:
                    t = op["t"]
                    idx = minimal_replay(log, t)
                    fresh, _ = make_solver(case["fam"], gseed)
                    bad = None
                    for j in idx:
                        e2 = apply_op(fresh, log[j][0])
                        if e2 is not None:
                            bad = (j, e2)
                            break
                    if bad is not None:
                        mon.fail("fresh-raises", "the same call on a fresh object behaves the same", op=str(log[bad[0]][0])[:160],
                                 exc=repr(bad[1])[:160])
                        continue
                    mon.count("fresh:compared")
                    compared += 1
                    d = snap_equal(after[t], snapshot(fresh, t))
                    if d:
                        k = d[0][0]
                        # classify the documented mechanisms
                        mech = "history-dependent"
                        fm_now = solver.force_matrices.get(t)
                        prev_lim = any(o["op"] in ("B", "V") and np.isfinite(o["lim"]) for o, _ in log)
                        last_ok_S = max([j_ for j_, (o_, ok_) in enumerate(log) if o_["op"] == "S" and o_.get("t") == t and ok_],
                                        default=-1)
                        failed_fix = any(o_["op"] == "S" and o_.get("t") == t and o_.get("method") == "fix_stress" and not ok_
                                         and j_ > last_ok_S for j_, (o_, ok_) in enumerate(log))
                        if failed_fix:
                            # the broken fix_stress branch (known finding F-FIXSTRESS) writes tensions to the mesh edges
                            # before it fails; nothing after it has overwritten them
                            mech = "F-FIXSTRESS"
                        elif k in ("table.stress", "edge.tension") and prev_lim:
                            # stale tension on interfaces excluded by an angle limit in the deciding or an earlier solve
                            mech = "F-STALE-EXCLUDED" if _only_excluded_differ(solver, fresh, t, log) else mech
                        mon.fail(mech, "what is reported for a frame equals a fresh object solved once with the last arguments",
                                 frame=t, key=k, diff=str(d[0])[:200], replay=str([(log[j][0]["op"], log[j][0].get("method"),
                                 log[j][0].get("lim")) for j in idx])[:300],
                                 history=str([(o["op"], o.get("t"), o.get("method"), ok_) for o, ok_ in log])[:500])
        if cap.unraisable:
            mon.fail("unraisable", "no destructor raises", events=cap.unraisable[:2])
        if compared:
            sigs.append([case["fam"], nfr, "".join(o["op"][0] + str(o.get("t", "")) for o in ops)])
    res = {"counters": dict(mon.evals), "hist": hist}
    if mon.fails:
        res.update(status="violated", findings=mon.fails)
        if sigs:
            res["sigs"] = sigs
        return res
    if not sigs:
        res.update(status="inconclusive", reason="no-successful-solve")
        return res
    res.update(status="held", sigs=sigs, sig=sigs[0], observed={"sequences": len(sigs)})
    return res


def _only_excluded_differ(solver, fresh, t, log):
    """True when every difference between the mesh-edge tensions of the two objects sits on an interface that was excluded
    by an angle limit in some solve of this frame (the known stale-value mechanism)"""
    fa, fb_ = solver.frames[t], fresh.frames[t]
    ever_excluded = set()
    # interfaces excluded by the CURRENT matrices of either object, or whose stored value differs while reported -1 earlier
    for s in (solver, fresh):
        fm = s.force_matrices.get(t)
        if fm is not None:
            for i, b in enumerate(s.frames[t].internal_big_edges):
                if b.vertices[0].id in fm.deletes and b.vertices[-1].id in fm.deletes:
                    ever_excluded.add(i)
    if not ever_excluded:
        return False
    for i, (ba, bb) in enumerate(zip(fa.internal_big_edges, fb_.internal_big_edges)):
        if i in ever_excluded:
            continue
        if abs(ba.tension - bb.tension) > 1e-12 * max(1, abs(ba.tension)):
            return False
    return True
