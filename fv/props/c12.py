"""C12 Vertex tracking between frames is injective and follows small motions.

Monitors: post-condition on the real TimeSeries.create_mapping (icontract) for the unconditional clauses (domain, range,
injectivity, user pairings honoured) and a truth-map comparison + round-trip check on the finished TimeSeries for series
generated inside the stated motion bounds (bounds re-evaluated on every consecutive pair of frames)."""
import numpy as np

ID = "C12"
RULE = ("series of 2..6 frames of Voronoi/arc tissues (6..60 cells); displacement fields random / affine / flowing, scaled "
        "to 60% (in-bounds) or 150..400% (out-of-bounds, unconditional clauses only) of the tracking bounds; every frame "
        "renumbered independently (ids, order, orientation); optional partial initial_guess (correct pairs) and wrong "
        "user pairings; frames with a missing border cell (vanishing vertices); cm on/off. distinct = (cells, frames, "
        "field kinds, cm, guess mode, in-bounds); non-trivial = at least one tracked junction"
        ' Added after the seeded rounds: rigid drift at 85 % of the bounds (wide), sheared hexagonal tissues at 84..91 % of the bounds (slip: near-ties of the nearest-neighbour search), one dictionary shared as the guess of every step.'
        ' Frames dictionaries filled in another order than their keys.')
MIN_DECISIVE = {"quick": 120, "thorough": 2000}
REQUIRED_COUNTERS = ["post:create_mapping", "successor:checked", "roundtrip:checked", "guess:checked"]
TECHNIQUE = ("runtime contract on TimeSeries.create_mapping + comparison of the finished mapping with the generator's truth "
             "successor map under independent relabelling of every frame")
CASE_TIMEOUT = {"quick": 400, "thorough": 1200}
ASSUMPTIONS = ["the motion bounds of the property are evaluated on interface end points (junctions with >=3 interfaces) of "
               "both frames with a safety factor 0.9, in the coordinates the tracker sees (after the optional centre-of-mass shift)"]
CTX = {}


def anchors():
    from fv import env  # noqa
    from forsys import time_series as ts
    T = ts.TimeSeries
    return [T.__post_init__, T.create_mapping, T.find_best, T.get_point_id_by_map]


def cases(seed, tier):
    q = tier == "quick"
    out = [{"fam": "inbounds", "seed": [seed, 12, i], "count": 2} for i in range(50 if q else 700)]
    out += [{"fam": "outbounds", "seed": [seed, 12, 10 ** 5 + i], "count": 2} for i in range(12 if q else 150)]
    out += [{"fam": "wide", "seed": [seed, 12, 3 * 10 ** 5 + i], "count": 3} for i in range(16 if q else 200)]
    out += [{"fam": "vanish", "seed": [seed, 12, 2 * 10 ** 5 + i], "count": 2} for i in range(12 if q else 150)]
    out += [{"fam": "slip", "seed": [seed, 12, 4 * 10 ** 5 + i], "count": 3} for i in range(8 if q else 100)]
    if tier != "quick":
        out.append({"fam": "suite", "seed": [seed, 0, 0]})
    return out


_MON = None


def _install():
    global _MON
    if _MON is not None:
        return _MON
    from fv import contracts
    from forsys import time_series as ts
    mon = contracts.Monitor()
    inst = contracts.Installed()

    def mapping_is_injective_between_end_points(self, t0, t1, initial_guess, result):
        mon.count("post:create_mapping")
        e0 = {p[0] for p in t0.big_edges_list} | {p[-1] for p in t0.big_edges_list}
        e1 = {p[0] for p in t1.big_edges_list} | {p[-1] for p in t1.big_edges_list}
        guess = dict(initial_guess)
        bad_keys = [k for k in result if k not in e0 and k not in guess]
        if bad_keys:
            mon.fail("domain", "keys are interface end points of the earlier frame", keys=bad_keys[:5])
        vals = [v for k, v in result.items() if v is not None]
        bad_vals = [v for k, v in result.items() if v is not None and v not in e1 and k not in guess]
        if bad_vals:
            mon.fail("range", "targets are interface end points of the later frame", values=bad_vals[:5])
        if len(set(vals)) != len(vals):
            dup = sorted({v for v in vals if vals.count(v) > 1})[:5]
            mon.fail("not-injective", "no two vertices are sent to the same target", duplicated=dup)
        if guess:
            mon.count("guess:checked")
            for k, v in guess.items():
                if result.get(k) != v:
                    mon.fail("guess-not-honoured", "user-supplied pairings are present unchanged", key=k, want=v,
                             got=result.get(k))
                    break
        missing = [k for k in e0 if k not in result]
        if missing:
            mon.fail("domain-missing", "every interface end point of the earlier frame has an entry", keys=missing[:5])
        return True

    inst.ensure(ts.TimeSeries, "create_mapping", mapping_is_injective_between_end_points)
    _MON = mon
    return mon


def _one(rng, fam, mon, sigs, hist):
    from fv import env, dyn
    from fv.gen import scen, tissue, series
    import forsys as fs
    slip = None
    if fam == "slip":
        # a regular hexagonal tissue sheared along a line through one column of cells (only edges perpendicular to the line are
        # cut, so the spacing across it stays above twice the motion) at 84..91 % of the bounds
        nx, ny = int(rng.integers(5, 9)), int(rng.integers(4, 8))
        at0 = tissue.lattice("hex", nx, ny)
        col = int(rng.integers(1, nx - 1))
        slip = dict(normal=1.0 + 0j, through=complex(col * 1.5, 0.0), frac=float(rng.uniform(0.84, 0.91)))
    elif fam == "wide":
        # small tissues: the junction spacing is large compared with the extent, so the 8 % bound is the binding one
        at0 = scen.base_tissue(rng, ["vor", "arc", "lat-hex"][int(rng.integers(3))], ncells=int(rng.integers(8, 14)))
        if len(at0.cells) > 7:
            at0 = at0.sub(tissue.random_connected_subset(rng, at0, int(rng.integers(3, 8))))
    else:
        at0 = scen.base_tissue(rng, ["vor", "arc"][int(rng.integers(2))], ncells=int(rng.integers(8, 60)))
        at0, _ = scen.maybe_sub(rng, at0, p=0.3, min_cells=4)
    if fam != "slip" and rng.random() < 0.5:
        at0 = at0.similarity(scale=10 ** rng.uniform(-1, 2), theta=rng.uniform(0, 6.28), shift=complex(*rng.uniform(-50, 50, 2)))
    elif fam in ("inbounds", "wide") and rng.random() < 0.3:
        # physical units: a whole tissue smaller than one length unit, around the origin
        sc_ = float(10 ** rng.uniform(-4, -1.5))
        at0 = at0.similarity(scale=sc_, theta=rng.uniform(0, 6.28), shift=-at0.centroid() * sc_ * np.exp(1j * 0))
        hist["small-units"] = hist.get("small-units", 0) + 1
    nfr = int(rng.integers(2, 7)) if fam != "slip" else int(rng.integers(2, 4))
    cm = bool(rng.random() < 0.4) and fam not in ("wide", "slip")
    frac = 0.6 if fam != "outbounds" else float(rng.uniform(1.5, 4.0))
    if cm:
        frac *= 0.5
    if fam == "slip":
        ats = [at0]
        for _t in range(1, nfr):
            ats.append(series.moved(ats[-1], series.slip_field(rng, ats[-1], slip["frac"], slip["normal"], slip["through"])))
            slip["through"] = slip["through"] + 0   # the line stays where it is; both parts keep sliding
        # the whole series in an arbitrary pose: quarter turns keep the line parallel to an axis (the tie-break then depends on
        # the metric), other angles do not
        th = float(rng.integers(4)) * np.pi / 2 if rng.random() < 0.6 else float(rng.uniform(0, 2 * np.pi))
        sc, sh = float(10 ** rng.uniform(-1, 2)), complex(*rng.uniform(-50, 50, 2))
        ats = [x.similarity(scale=sc, theta=th, shift=sh * sc) for x in ats]
    else:
        ats = dyn.random_series(rng, at0, nfr, frac=frac, wide=(fam == "wide"))
    if fam == "vanish":
        # one frame loses a border cell: its private junctions have no successor / predecessor
        jc = ats[0].jcells()
        adj = ats[0].cell_adjacency()
        border = [c for c in ats[0].cells if any(len(ats[0].E[k]) == 1 for k in ats[0].E if c in ats[0].E[k])]
        t_v = int(rng.integers(0, nfr))
        if border and len(ats[0].cells) > 4:
            c = border[int(rng.integers(len(border)))]
            keep = [x for x in ats[t_v].cells if x != c]
            comp = max(ats[t_v].components(keep), key=len)
            ats[t_v] = ats[t_v].sub(comp)
    times = np.cumsum(rng.uniform(0.2, 3.0, nfr)) * 10 ** rng.uniform(-2, 2)
    gmode = ["none", "none", "partial", "wrong", "shared"][int(rng.integers(5))] if fam != "vanish" else "none"
    with env.Capture() as cap:
        s = dyn.build(rng, ats, times, k=int(rng.integers(0, 5)), relabel=True)
        guess = {}
        wrong_keys = {}
        if gmode == "shared":
            # dict.fromkeys(range(n), {}): ONE (empty) dictionary object given for every step
            guess = dict.fromkeys(range(nfr), {})
        elif gmode != "none":
            for t in range(nfr):
                guess[t] = {}
            for t in range(nfr - 1 if gmode != "shared" else 0):
                tm = dyn.truth_map(s, t, t + 1)
                ends = series.end_points(ats[t])
                ids = [s.rs[t].jmap[j] for j in ends if s.rs[t].jmap[j] in tm]
                if not ids:
                    continue
                pick = [int(x) for x in rng.choice(ids, size=max(1, len(ids) // 4), replace=False)]
                for v in pick:
                    guess[t][v] = tm[v]
                if gmode == "wrong" and len(pick) >= 2:
                    a, b = pick[0], pick[1]
                    guess[t][a], guess[t][b] = tm[b], tm[a]
                    wrong_keys[t] = {a, b}
        frames_in = s.frames
        if rng.random() < 0.3:
            # the same frames, put into the dictionary in another order than their keys (the keys say which frame follows which)
            order_ = [int(x) for x in rng.permutation(nfr)]
            frames_in = {t_: s.frames[t_] for t_ in order_}
            hist["frames-dict-out-of-order"] = hist.get("frames-dict-out-of-order", 0) + 1
        try:
            solver = fs.ForSys(frames_in, cm=cm, initial_guess=guess if gmode != "none" else [])
        except Exception as exc:
            import traceback
            mon.fail("tracking-raises", "the correspondence can be built", exc=repr(exc)[:200], tb=traceback.format_exc()[-500:],
                     cm=cm, gmode=gmode, fam=fam)
            return
        mesh = solver.mesh
    inb_all = True
    tracked = 0
    for t in range(nfr - 1):
        # bounds in the coordinates the tracker saw: with cm both frames are shifted to their own centre of mass
        sh0 = sh1 = 0j
        if cm:
            sh0 = -np.mean([complex(v.x, v.y) for v in s.frames[t].vertices.values()])      # already applied to the objects:
            sh1 = -np.mean([complex(v.x, v.y) for v in s.frames[t + 1].vertices.values()])  # use current positions instead
        a0 = ats[t].copy()
        a1 = ats[t + 1].copy()
        for j in a0.J:
            vv = s.frames[t].vertices[s.rs[t].jmap[j]]
            a0.J[j] = complex(vv.x, vv.y)
        for j in a1.J:
            vv = s.frames[t + 1].vertices[s.rs[t + 1].jmap[j]]
            a1.J[j] = complex(vv.x, vv.y)
        q, ok = series.motion_bounds(a0, a1, margin=0.995 if fam == "slip" else 0.9)
        m = mesh.mapping.get(t)
        if m is None:
            if ok:
                mon.fail("frames-rejected", "frames inside the bounds are tracked", bounds=q, t=t)
            hist["pair-rejected"] = hist.get("pair-rejected", 0) + 1
            inb_all = False
            continue
        if not ok or fam == "outbounds":
            hist["pair-out-of-bounds"] = hist.get("pair-out-of-bounds", 0) + 1
            inb_all = inb_all and ok
            continue
        if fam == "slip":
            hist["slip:pairs-in-bounds"] = hist.get("slip:pairs-in-bounds", 0) + 1
        tm = dyn.truth_map(s, t, t + 1)
        ends0 = set(series.end_points(ats[t]))
        ends1 = set(series.end_points(ats[t + 1]))
        affected = wrong_keys.get(t, set())
        wrong_targets = {guess[t][a] for a in affected} if affected else set()
        has_orphans = any((j not in ats[t + 1].J) or (j not in ends1) for j in ends0) or \
            any((j not in ats[t].J) or (j not in ends0) for j in ends1)
        for j in ends0:
            v0 = s.rs[t].jmap[j]
            if j not in ats[t + 1].J or j not in ends1:
                continue                       # no true successor among the end points of the next frame
            if v0 in affected or tm[v0] in wrong_targets:
                continue                       # the user forced another pairing
            mon.count("successor:checked")
            tracked += 1
            if m.get(v0) != tm[v0]:
                # who holds the true successor?  an orphan (end point without a true partner in the next frame) that was
                # processed earlier by the greedy nearest-neighbour search is the known mechanism
                inv0 = {vv: jj for jj, vv in s.rs[t].jmap.items()}
                thief = [k for k, w in m.items() if w == tm[v0] and k != v0]
                thief_is_orphan = bool(thief) and all(
                    (inv0.get(k) not in ats[t + 1].J) or (inv0.get(k) not in ends1) for k in thief)
                # second-order victim: the junction lost its successor to a junction that itself was robbed
                robbed_chain = bool(thief) and has_orphans and all(m.get(k) != tm.get(k) for k in thief)
                mon.fail("F-ORPHAN-STEALS" if (thief_is_orphan or robbed_chain) else "wrong-successor",
                         "each junction is mapped to its true successor however the frames are numbered",
                         t=t, got=m.get(v0), want=tm[v0], bounds=q, cm=cm, orphans=has_orphans)
                break
    # round trip over all t0 < t1
    for t0 in range(nfr):
        for t1 in range(t0 + 1, nfr):
            if any(mesh.mapping.get(t) is None for t in range(t0, t1)):
                continue
            ok_inj = all(len({v for v in mesh.mapping[t].values() if v is not None}) ==
                         len([v for v in mesh.mapping[t].values() if v is not None]) for t in range(t0, t1))
            for v0 in list(mesh.mapping[t0].keys())[:40]:
                try:
                    w = mesh.get_point_id_by_map(v0, t0, t1)
                except KeyError:
                    continue                   # chain leaves the tracked set (vanished vertex)
                if w is None:
                    continue
                mon.count("roundtrip:checked")
                try:
                    back = mesh.get_point_id_by_map(w, t1, t0)
                except KeyError:
                    back = "KeyError"
                if back != v0 and ok_inj:
                    mon.fail("round-trip", "forward then backward returns the starting vertex", v=v0, t0=t0, t1=t1, back=back)
                    break
    if cap.unraisable:
        mon.fail("unraisable", "no destructor raises", events=cap.unraisable[:2])
    hist[f"fam:{fam}"] = hist.get(f"fam:{fam}", 0) + 1
    hist[f"cm:{cm}"] = hist.get(f"cm:{cm}", 0) + 1
    hist[f"guess:{gmode}"] = hist.get(f"guess:{gmode}", 0) + 1
    sigs.append([len(at0.cells), nfr, cm, gmode, fam, bool(inb_all), tracked > 0])



def _suite_case(prop_id):
    """the repository's own test-suite as an extra workload, run under this property's monitors (shipped fixtures)"""
    from fv import suite
    data, tail = suite.run(prop_id)
    if data is None or data.get("exitstatus") not in (0, 1):
        return {"status": "inconclusive", "reason": "suite-did-not-run", "trace": tail}
    counters = {"suite:" + k: v for k, v in data["evals"].items()}
    counters["suite:runs"] = 1
    fails = list(data["fails"])
    if data.get("unraisable"):
        fails.append({"mech": "unraisable", "clause": "no destructor raises", "detail": {"events": data["unraisable"]}})
    if data.get("monitor_errors"):
        return {"status": "inconclusive", "reason": "monitor-error", "trace": data["monitor_errors"][-1], "counters": counters}
    if fails:
        return {"status": "violated", "findings": fails, "counters": counters, "sigs": [["suite"]]}
    if not data["evals"]:
        return {"status": "inconclusive", "reason": "suite-reached-no-monitor", "counters": counters}
    return {"status": "held", "sigs": [["suite", sum(data["evals"].values())]], "sig": ["suite"], "counters": counters,
            "observed": {"monitor_evaluations_in_suite": data["evals"]}}


def run_case(case):
    if case.get("fam") == "suite":
        return _suite_case(ID)
    mon = _install()
    mon.reset()
    rng = np.random.default_rng(case["seed"])
    sigs, hist = [], {}
    for _ in range(case["count"]):
        _one(rng, case["fam"], mon, sigs, hist)
    res = {"counters": dict(mon.evals), "hist": hist}
    if mon.fails:
        res.update(status="violated", findings=mon.fails)
        if sigs:
            res["sigs"] = sigs
        return res
    if not sigs:
        res.update(status="inconclusive", reason="no-series")
        return res
    res.update(status="held", sigs=sigs, sig=sigs[0], observed={"series": len(sigs)})
    return res
