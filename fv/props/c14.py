"""C14 Surface Evolver dumps are parsed faithfully.

Round-trip monitor: an independent serialiser (fv.gen.se) writes a dump from generated records; a post-condition on the real
SurfaceEvolver.create_lattice compares the parsed mesh with the records, and a Frame(gt=True) built from it must report the
mean density of each interface's mesh edges.  Shipped dumps are checked against an independent regular-expression re-parse."""
import os
import re
import shutil
import tempfile
import numpy as np

ID = "C14"
RULE = ("dumps written from generated Voronoi/arc tissues (3..60 cells) and sub-tissues: id numbering with gaps, signed edge "
        "loops with positive and negative references, faces of 3..60 edges wrapped at 3..40 tokens per line, /*area*/ comment on "
        "the last loop line or on its own line, density present / absent / mixed, optional 'original n', extra unattached "
        "vertices and edges, coordinates scaled 1e-3..1e6 in %g / fixed / scientific / repr notation; plus every shipped dump "
        "against a regex re-parse. distinct = (cells, vertices, wrap, density mode, orphans, area layout, number style); "
        "non-trivial = at least one face"
        ' Added after the seeded rounds: faces / bodies in permuted file order, zero densities, a second dump written to the same path in one process.')
MIN_DECISIVE = {"quick": 80, "thorough": 1200}
REQUIRED_COUNTERS = ["post:create_lattice", "vertices:compared", "edges:compared", "cells:compared", "gt:compared"]
TECHNIQUE = "round-trip oracle: independent serialiser -> real parser -> icontract post-condition comparing with the generating records"
CASE_TIMEOUT = {"quick": 600, "thorough": 1800}
ASSUMPTIONS = ["dumps are laid out like the shipped ones: a blank line before each section header, bodies listed in face order"]
FIX = "/repo/tests/data"
CTX = {}


def anchors():
    from fv import env  # noqa
    from forsys import surface_evolver as se
    S = se.SurfaceEvolver
    return [S.create_lattice, S.calculate_first_last, S.get_vertices, S.get_edges, S.get_cells, S.get_pressures]


def cases(seed, tier):
    q = tier == "quick"
    out = [{"fam": "gen", "seed": [seed, 14, i]} for i in range(140 if q else 1500)]
    dumps = ["initial_furrow.dmp", "12_12/step_21.dmp"] if q else \
        ["initial_furrow.dmp", "last_furrow.dmp"] + [f"12_12/step_{i}.dmp" for i in range(20, 25)] + \
        [f"furrow_gauss_velocity/stage{i}.dmp" for i in range(8)]
    out += [{"fam": "fixture", "file": f} for f in dumps]
    return out


def reparse(path):
    """independent reading of a dump, written from the file format (not from the parser)"""
    txt = open(path).read().replace("\\\n", " ")
    sec = {}
    cur = None
    for line in txt.split("\n"):
        m = re.match(r"^(vertices|edges|faces|bodies)\s\s", line) or re.match(r"^(vertices|edges|faces|bodies)\s*(/\*.*)?$", line)
        if m and not line.startswith(("vertices_", "edges_", "facets_", "bodies_", "facetedges")):
            cur = m.group(1)
            sec[cur] = []
            continue
        if line.startswith("read"):
            cur = None
        if cur and line.strip():
            sec[cur].append(line)
    V, Ed, F, B = {}, {}, {}, []
    for l in sec.get("vertices", []):
        t = l.split()
        V[int(t[0])] = (float(t[1]), float(t[2]))
    for l in sec.get("edges", []):
        t = l.split()
        d = None
        if "density" in t:
            d = float(t[t.index("density") + 1])
        Ed[int(t[0])] = (int(t[1]), int(t[2]), d)
    for l in sec.get("faces", []):
        body = re.sub(r"/\*.*?\*/", " ", l)
        t = body.split()
        F[int(t[0])] = [int(x) for x in t[1:]]
    for l in sec.get("bodies", []):
        t = l.split()
        B.append((int(t[0]), float(t[t.index("lagrange_multiplier") + 1])))
    return {"V": V, "Ed": Ed, "F": F, "B": B}


_MON = None


def _install():
    global _MON
    if _MON is not None:
        return _MON
    from fv import contracts
    from forsys import surface_evolver as se
    mon = contracts.Monitor()
    inst = contracts.Installed()

    def lattice_matches_records(self, result):
        rec = CTX.get("rec")
        if rec is None:
            return True
        mon.count("post:create_lattice")
        vertices, edges, cells = result
        V, Ed, F, B = rec["V"], rec["Ed"], rec["F"], rec["B"]
        in_face_e = {abs(e) for loop in F.values() for e in loop}
        in_face_v = set()
        for fid, loop in F.items():
            for e in loop:
                a, b, _ = Ed[abs(e)]
                in_face_v.add(a if e > 0 else b)
        exp_v = {vid: xy for vid, xy in V.items() if vid in in_face_v}
        exp_e = {eid: r for eid, r in Ed.items() if eid in in_face_e}
        # vertices
        if set(vertices) != set(exp_v):
            mon.fail("vertex-set", "one vertex per vertex record that belongs to a face; others dropped",
                     missing=sorted(set(exp_v) - set(vertices))[:5], extra=sorted(set(vertices) - set(exp_v))[:5])
        for vid, (x, y) in exp_v.items():
            v = vertices.get(vid)
            if v is None:
                continue
            mon.count("vertices:compared")
            if v.id != vid or v.x != round(x, 3) or v.y != round(y, 3):
                mon.fail("vertex-coordinates", "vertex at its coordinates rounded to three decimals", vid=vid, got=[v.x, v.y],
                         want=[round(x, 3), round(y, 3)])
                break
        # edges
        if set(edges) != set(exp_e):
            extra = sorted(set(edges) - set(exp_e))
            mech = "edge-set"
            if not (set(exp_e) - set(edges)) and extra and all(Ed[e][0] in exp_v and Ed[e][1] in exp_v for e in extra):
                mech = "unattached-edge-kept"
            mon.fail(mech, "one mesh edge per edge record that belongs to a face; edges that belong to no face are dropped",
                     missing=sorted(set(exp_e) - set(edges))[:5], extra=extra[:5])
        for eid, (a, b, d) in exp_e.items():
            e = edges.get(eid)
            if e is None:
                continue
            mon.count("edges:compared")
            want_gt = round(d, 4) if d is not None else 1
            if e.id != eid or e.v1.id != a or e.v2.id != b or e.v1 is not vertices.get(a) or e.v2 is not vertices.get(b):
                mon.fail("edge-ends", "mesh edge joins the recorded vertices", eid=eid, got=[e.v1.id, e.v2.id], want=[a, b])
                break
            if abs(e.gt - want_gt) > 1e-12:
                mon.fail("edge-density", "recorded density (four decimals; 1 if absent) as reference tension", eid=eid,
                         got=float(e.gt), want=want_gt)
                break
        # cells
        if set(cells) != set(F):
            mon.fail("cell-set", "one cell per face", missing=sorted(set(F) - set(cells))[:5], extra=sorted(set(cells) - set(F))[:5])
        porder = [p for _, p in B]
        for i, (fid, loop) in enumerate(F.items()):
            c = cells.get(fid)
            if c is None:
                continue
            mon.count("cells:compared")
            want = [Ed[abs(e)][0] if e > 0 else Ed[abs(e)][1] for e in loop]
            got = [v.id for v in c.vertices]
            if got != want:
                mon.fail("cell-cycle", "the cell's vertex cycle follows the face's signed edge loop (also over several lines)",
                         fid=fid, n_got=len(got), n_want=len(want), first_diff=next((k for k, (g, w) in enumerate(zip(got, want)) if g != w), None))
                break
            if any(v is not vertices.get(v.id) for v in c.vertices):
                mon.fail("cell-vertex-identity", "cells refer to the parsed vertex objects", fid=fid)
                break
            if c.gt_pressure is None or abs(c.gt_pressure - round(porder[i], 4)) > 1e-12:
                mon.fail("cell-pressure", "the body's Lagrange multiplier (four decimals) as reference pressure", fid=fid,
                         got=c.gt_pressure, want=round(porder[i], 4))
                break
        return True

    inst.ensure(se.SurfaceEvolver, "create_lattice", lattice_matches_records)
    _MON = mon
    return mon


def _gt_check(mon, lat):
    from forsys import frames
    from fv.oracle import mesh as omesh, topo
    # the parsed mesh itself: every back-reference of a vertex points at an element that exists (dropped edges included)
    bad = omesh.check_mesh(lat.vertices, lat.edges, lat.cells)
    if bad:
        mon.fail("parsed-mesh-inconsistent", "vertices, edges and cells of the parsed mesh refer to each other consistently",
                 first=bad[:3])
    fr = frames.Frame(0, lat.vertices, lat.edges, lat.cells, gt=True)
    # interfaces of the frame = maximal paths of the mesh (computed from the edge records, not from the back-references)
    try:
        n_ref = len(topo.Topo(lat.vertices, lat.edges, lat.cells).paths)
        if n_ref != len(fr.big_edges_list):
            mon.fail("interface-count", "a frame built from the parsed mesh has the interfaces of the mesh", got=len(fr.big_edges_list),
                     want=n_ref)
    except Exception:
        pass
    df = fr.get_gt_tensions(with_border=True)
    ids = [int(i) for i in df["id"]]
    if ids != list(range(len(fr.big_edges_list))):
        mon.fail("gt-table", "reference tensions are tabulated for every interface", n=len(ids))
        return fr
    for i, g in zip(ids, df["gt"]):
        b = fr.big_edges[i]
        want = float(np.mean([lat.edges[e].gt for e in b.edges]))
        mon.count("gt:compared")
        if abs(float(g) - want) > 1e-12 or abs(b.gt - want) > 1e-12:
            mon.fail("gt-mean", "each interface's reference tension is the mean density of its mesh edges", i=i, got=float(g), want=want)
            break
    return fr


def run_case(case):
    from fv import env
    from fv.gen import scen, tissue, se as gse
    from forsys import surface_evolver as se
    mon = _install()
    mon.reset()
    sigs, hist = [], {}
    tmp = None
    with env.Capture() as cap:
        if case["fam"] == "gen":
            rng = np.random.default_rng(case["seed"])
            tmp = tempfile.mkdtemp(prefix="fv-c14-")
            path = os.path.join(tmp, "t.dmp")
            # sometimes a SECOND, different dump is written to the same path and parsed in the same process
            reps = 2 if case["seed"][2] % 4 == 3 else 1
            hist["same-path-rewritten"] = int(reps == 2)
            for _rep in range(reps):
                at = scen.base_tissue(rng, ["vor", "arc"][int(rng.integers(2))], ncells=int(rng.integers(6, 70)))
                if rng.random() < 0.4:
                    at = at.sub(tissue.random_connected_subset(rng, at, int(rng.integers(1, len(at.cells) + 1))))
                density = ["all", "all", "none", "mixed"][int(rng.integers(4))]
                orphans = int(rng.integers(0, 5)) if rng.random() < 0.5 else 0
                cscale = float(10 ** rng.uniform(-3, 6)) if rng.random() < 0.4 else 1.0
                kmax = int(rng.integers(0, 12))
                rec = gse.records_from_tissue(rng, at, k=(0, kmax), id_gaps=bool(rng.random() < 0.7), density=density,
                                              orphans=orphans, coord_scale=cscale, neg_refs=bool(rng.random() < 0.8))
                extra_real_edge = False
                if rng.random() < 0.15 and len(rec["V"]) > 6:
                    # an unattached edge between two vertices that DO belong to faces
                    vids = [v for v in rec["V"] if v not in rec["orphan_v"]]
                    a, b = (int(x) for x in rng.choice(vids, size=2, replace=False))
                    have = {frozenset((p, q)) for p, q, _ in rec["Ed"].values()}
                    if frozenset((a, b)) not in have:
                        rec["Ed"][max(rec["Ed"]) + 1] = (a, b, 1.0 if density != "none" else None)
                        extra_real_edge = True
                wrap = int(rng.integers(3, 41))
                own = bool(rng.random() < 0.3)
                style = ["g", "fixed", "sci", "repr"][int(rng.integers(4))]
                original = bool(rng.random() < 0.3)
                gse.write_dump(path, rec["V"], rec["Ed"], rec["F"], rec["B"], wrap=wrap, area_own_line=own, original=original,
                               numstyle=style)
                # the records as the FILE states them (numbers as printed)
                rec_file = reparse(path)
                if rec_file["F"] != rec["F"] or set(rec_file["V"]) != set(rec["V"]) or set(rec_file["Ed"]) != set(rec["Ed"]):
                    return {"status": "inconclusive", "reason": "serialiser-reparse-mismatch"}
                CTX["rec"] = rec_file
                try:
                    lat = se.SurfaceEvolver(path)
                except Exception as exc:
                    import traceback
                    mech = "parse-raises"
                    tb = traceback.format_exc()
                    if density in ("none", "mixed") and isinstance(exc, IndexError) and "get_edges" in tb:
                        mech = "F-SE-NODENSITY"
                    mon.fail(mech, "the dump is parsed", exc=repr(exc)[:160], density=density, wrap=wrap, own=own, style=style,
                             tb=tb[-400:])
                    lat = None
                CTX.pop("rec", None)
                if lat is not None and not mon.fails:
                    try:
                        _gt_check(mon, lat)
                    except Exception as exc:
                        import traceback
                        mon.fail("frame-raises", "a frame can be built from the parsed mesh", exc=repr(exc)[:160],
                                 tb=traceback.format_exc()[-400:])
                hist["density:" + density] = 1
                hist["extra-real-edge"] = int(extra_real_edge)
                sigs.append([len(rec["F"]), len(rec["V"]), wrap, density, orphans, own, style, original])
        else:
            path = os.path.join(FIX, case["file"])
            CTX["rec"] = reparse(path)
            try:
                lat = se.SurfaceEvolver(path)
                CTX.pop("rec", None)
                _gt_check(mon, lat)
            except Exception as exc:
                mon.fail("parse-raises", "the shipped dump is parsed", exc=repr(exc)[:160])
            CTX.pop("rec", None)
            sigs.append(["fixture", case["file"]])
    if tmp:
        shutil.rmtree(tmp, ignore_errors=True)
    if cap.unraisable:
        mon.fail("unraisable", "no destructor raises", events=cap.unraisable[:2])
    res = {"counters": dict(mon.evals), "hist": hist}
    if mon.fails:
        res.update(status="violated", findings=mon.fails, sigs=sigs)
        return res
    res.update(status="held", sigs=sigs, sig=sigs[0], observed={})
    return res
