"""C11 Mesh resampling keeps junctions, topology and interface shape.

Monitor: snapshot-before / compare-after contract on the real virtual_edges.generate_mesh (icontract snapshot + ensure).
Old vertices are identified by OBJECT identity (ids of deleted vertices are re-used by get_unused_id), interfaces by
O-TOPO on mesh-edge ids (the resampled mesh is a multigraph)."""
import os
import numpy as np

ID = "C11"
RULE = ("generate_mesh on: Voronoi / arc tissues with 0..40 points per interface (uneven per interface), negative and offset "
        "coordinates, connected sub-tissues (holes, bridges, two-cell tissues), shipped Surface Evolver dumps and skeleton "
        "lattices; ne in 1..12; replace_short_edges on/off; second application compared with the first. distinct = "
        "(source, cells, interfaces, ne, replace_short_edges, contracted interfaces, longest interface); non-trivial = at "
        "least one interface"
        ' Added after the seeded rounds: lattice sub-tissues with two-point interfaces, pendant cells (closed interface through one junction, ne >= 3).')
MIN_DECISIVE = {"quick": 200, "thorough": 3000}
REQUIRED_COUNTERS = ["post:generate_mesh", "clause:junction", "clause:interface", "clause:cycle", "clause:idempotent",
                     "clause:contracted-midpoint"]
TECHNIQUE = "runtime contract (icontract snapshot/ensure on generate_mesh) with object-identity tracking and O-TOPO"
CASE_TIMEOUT = {"quick": 600, "thorough": 1800}
ASSUMPTIONS = ["chains of contracted two-point outline interfaces have no defined midpoint; the midpoint clause is decided "
               "only for isolated contractions"]
FIX = "/repo/tests/data"
CTX = {}


def anchors():
    from fv import env  # noqa
    from forsys import virtual_edges as ve, cell
    return [ve.generate_mesh, ve.join_two_vertices, ve.get_unused_id, cell.Cell.replace_vertex, ve.create_edges_new]


def cases(seed, tier):
    q = tier == "quick"
    out = [{"fam": "synth", "seed": [seed, 11, i], "count": 4} for i in range(70 if q else 1000)]
    out += [{"fam": "lat-short", "seed": [seed, 11, 5 * 10 ** 5 + i], "count": 6} for i in range(10 if q else 150)]
    out += [{"fam": "pendant", "seed": [seed, 11, 6 * 10 ** 5 + i], "count": 6} for i in range(6 if q else 80)]
    dumps = ["initial_furrow.dmp", "12_12/step_22.dmp"] if q else \
        ["initial_furrow.dmp", "last_furrow.dmp"] + [f"12_12/step_{i}.dmp" for i in range(20, 25)] + \
        [f"furrow_gauss_velocity/stage{i}.dmp" for i in range(8)]
    for j, f in enumerate(dumps):
        for ne in ([3, 9] if q else [1, 2, 3, 5, 6, 9, 12]):
            out.append({"fam": "se-fixture", "file": f, "ne": ne, "seed": [seed, 11, 10 ** 5 + j]})
    for j, f in enumerate(["test_nonzero.tif", "experimental/exp_1.tif"]):
        for ne in ([6] if q else [1, 3, 4, 6, 9, 12]):
            for rse in (True, False):
                out.append({"fam": "skeleton-fixture", "file": f, "ne": ne, "rse": rse, "seed": [seed, 11, 2 * 10 ** 5 + j]})
    return out


_MON = None


class Snap:
    pass


def _snapshot(vertices, edges, cells):
    from fv.oracle import topo
    s = Snap()
    s.vobj = dict(vertices)                                   # id -> object (strong refs keep identities stable)
    s.pos = {id(v): (v.x, v.y) for v in vertices.values()}
    s.cycles = {cid: list(c.vertices) for cid, c in cells.items()}
    s.cellobj = dict(cells)
    t = topo.Topo(vertices, edges, cells)
    s.paths = [[vertices[i] for i in vp] for vp, ep in t.paths]
    s.ncells = {id(v): len(t.vcells[vid]) for vid, v in vertices.items()}
    s.vcells = {id(v): set(t.vcells[vid]) for vid, v in vertices.items()}
    s.with_junction = t.cells_with_junction()
    s.adj = t.cell_adjacency(edges)
    return s


def _cyc_equal(a, b):
    """cyclic equality of two sequences (same orientation)"""
    if len(a) != len(b):
        return False
    if not a:
        return True
    n = len(a)
    for s in range(n):
        if all(a[(s + i) % n] is b[i] or a[(s + i) % n] == b[i] for i in range(n)):
            return True
    return False


def _install():
    global _MON
    if _MON is not None:
        return _MON
    from fv import contracts
    from fv.oracle import topo
    from forsys import virtual_edges as ve
    mon = contracts.Monitor()
    inst = contracts.Installed()

    def before(vertices, edges, cells):
        return _snapshot(vertices, edges, cells)

    def resampling_preserves_structure(ne, result, OLD, _KWARGS):
        c = CTX.get("cur")
        if c is None:
            return True
        mon.count("post:generate_mesh")
        rse = _KWARGS.get("replace_short_edges", True)
        old = OLD.before
        nv, nedges, ncells = result[0], result[1], result[2]
        alive = lambda v: nv.get(v.id) is v
        # ---- which old interfaces must be contracted (property: two-point interface on the tissue border)
        contracted = []
        bridge_candidates = []          # two-point interfaces BETWEEN two cells with both ends on the outline
        if rse:
            for P in old.paths:
                if len(P) == 2 and len(P) <= ne and old.ncells[id(P[0])] < 3 and old.ncells[id(P[1])] < 3:
                    if len(old.vcells[id(P[0])] & old.vcells[id(P[1])]) < 2:
                        contracted.append(P)
                    else:
                        bridge_candidates.append(P)
        # groups of old vertices that merge (union-find over contracted pairs)
        parent = {}

        def find(x):
            while parent.get(x, x) != x:
                x = parent[x]
            return x
        objs = {}
        for P in contracted:
            a, b = id(P[0]), id(P[1])
            objs[a], objs[b] = P[0], P[1]
            parent.setdefault(a, a)
            parent.setdefault(b, b)
            ra, rb = find(a), find(b)
            if ra != rb:
                parent[ra] = rb
        groups = {}
        for x in parent:
            groups.setdefault(find(x), []).append(x)
        chain = any(len(g) > 2 for g in groups.values())
        internal_contracted = bridge_candidates
        c["contracted"] = len(contracted)
        c["chain"] = chain
        # ---- junctions shared by >=3 cells keep id and exact position
        for vid, v in old.vobj.items():
            if old.ncells[id(v)] >= 3:
                mon.count("clause:junction")
                if nv.get(vid) is not v:
                    mon.fail("junction-lost", "a junction shared by three or more cells keeps its id", vid=vid)
                elif (v.x, v.y) != old.pos[id(v)]:
                    mon.fail("junction-moved", "a junction shared by three or more cells keeps its exact position", vid=vid)
        # ---- nothing that survives moves
        for vid, v in old.vobj.items():
            if alive(v) and (v.x, v.y) != old.pos[id(v)]:
                mon.fail("vertex-moved", "resampling only selects points, it never moves them", vid=vid)
                break
        # ---- every cell that has a junction survives
        for cid in old.with_junction:
            if ncells.get(cid) is not old.cellobj[cid]:
                mon.fail("cell-lost", "every cell that has a junction is kept", cid=cid)
        # ---- new (merged) vertices <-> groups
        merged_new = [v for v in nv.values() if id(v) not in old.pos]
        if len(merged_new) != len(groups):
            mon.fail("merged-count",
                     "one new vertex per contracted border interface (group)", new=len(merged_new), groups=len(groups),
                     rse=rse)
            return True
        # ---- cycles: cyclic subsequence of the old cycle modulo contraction; learn token -> new vertex
        tok2new = {}
        work = []
        for cid, cobj in ncells.items():
            if cid not in old.cycles:
                mon.fail("cell-invented", "no cell appears")
                continue
            oc = old.cycles[cid]
            exp = []
            for v in oc:
                if id(v) in parent:
                    t = ("G", find(id(v)))
                    if not exp or exp[-1] != t:
                        exp.append(t)
                elif alive(v):
                    exp.append(v)
            while len(exp) > 1 and exp[0] == exp[-1] and isinstance(exp[0], tuple):
                exp.pop()
            work.append((cid, cobj, exp))
        # cells whose expected cycle contains surviving vertices fix the rotation uniquely: do them first, so that cycles
        # made of merged vertices only (all rotations fit) are aligned consistently with what is already known
        work.sort(key=lambda w: -sum(1 for x in w[2] if not isinstance(x, tuple)))
        for cid, cobj, exp in work:
            mon.count("clause:cycle")
            new = list(cobj.vertices)
            if len(new) != len(exp):
                mon.fail("cycle", "every cell cycle is a cyclic subsequence of its original cycle (modulo contraction)",
                         cid=cid, n_new=len(new), n_expected=len(exp))
                continue
            n = len(new)
            fits = []
            for s_ in range(max(n, 1)):
                m = {}
                good = True
                for i in range(n):
                    a, b = exp[(s_ + i) % n], new[i]
                    if isinstance(a, tuple):
                        if id(b) in old.pos or m.get(a, b) is not b:
                            good = False
                            break
                        m[a] = b
                    elif a is not b:
                        good = False
                        break
                if good:
                    fits.append(m)
            if not fits:
                mon.fail("cycle", "every cell cycle is a cyclic subsequence of its original cycle (modulo contraction)",
                         cid=cid, n_new=len(new))
                continue
            consistent = [m for m in fits if all(tok2new.get(a, b) is b for a, b in m.items())]
            if not consistent:
                mon.fail("cycle-merge-inconsistent", "cells agree on the vertex a contracted interface became", cid=cid)
                continue
            for a, b in consistent[0].items():
                tok2new[a] = b
        if len({id(b) for b in tok2new.values()}) != len(tok2new):
            mon.fail("merge-not-injective", "distinct contracted interfaces become distinct vertices")
        # ---- midpoint of isolated contractions
        for root, members in groups.items():
            if len(members) == 2 and ("G", root) in tok2new:
                mon.count("clause:contracted-midpoint")
                a, b = objs[members[0]], objs[members[1]]
                pa, pb = old.pos[id(a)], old.pos[id(b)]
                w = tok2new[("G", root)]
                ex, ey = (pa[0] + pb[0]) / 2, (pa[1] + pb[1]) / 2
                if abs(w.x - ex) > 1e-12 * (abs(ex) + 1) or abs(w.y - ey) > 1e-12 * (abs(ey) + 1):
                    mech = "F-ABS-MIDPOINT" if (abs(w.x - abs(ex)) <= 1e-12 * (abs(ex) + 1) and
                                                 abs(w.y - abs(ey)) <= 1e-12 * (abs(ey) + 1)) else "midpoint"
                    mon.fail(mech, "a two-point border interface is contracted to its midpoint", got=[w.x, w.y],
                             expected=[ex, ey])
        # ---- interfaces: ordered subsequence with both ends, <= ne+1 points, unchanged when already short
        tnew = topo.Topo(nv, nedges, ncells)
        new_paths = {}
        for vp, ep in tnew.paths:
            key = tuple(id(nv[i]) for i in vp)
            new_paths[key] = new_paths.get(key, 0) + 1
            new_paths[key[::-1]] = new_paths.get(key[::-1], 0) + (0 if key == key[::-1] else 1)
        used = {}
        n_old_kept = 0
        for P in old.paths:
            if any(P is Q for Q in contracted):
                continue
            n_old_kept += 1
            mon.count("clause:interface")

            def img(v):
                if id(v) in parent:
                    return tok2new.get(("G", find(id(v))))
                return v if alive(v) else None
            S = [img(v) for v in P]
            if S[0] is None or S[-1] is None:
                mon.fail("interface-end-lost", "each interface keeps both its ends", n=len(P))
                continue
            S2 = [x for x in S if x is not None]
            # collapse repeated merged ends (an interface whose interior vertex merged cannot happen: interiors have degree 2)
            if len(S2) > ne + 1:
                mon.fail("interface-too-long", "each resampled interface has at most ne+1 points", n_new=len(S2), ne=ne)
            if len(P) <= ne + 1 and len(S2) != len(P):
                mon.fail("short-interface-changed", "interfaces that already have at most ne+1 points are unchanged",
                         n_old=len(P), n_new=len(S2), ne=ne)
            key = tuple(id(x) for x in S2)
            used[key] = used.get(key, 0) + 1
            if new_paths.get(key, 0) < used[key] and not (S2[0] is S2[-1] and len(S2) == 2):
                mon.fail("interface-mismatch", "each interface is replaced by an ordered subsequence of its own points",
                         n_old=len(P), n_new=len(S2), ne=ne)
        if len(tnew.paths) != n_old_kept and not chain:
            mon.fail("interface-count", "old and new interfaces are in bijection", old=n_old_kept, new=len(tnew.paths))
        # ---- adjacency
        adj_new = tnew.cell_adjacency(nedges)
        adj_old = {p for p in old.adj if p[0] in ncells and p[1] in ncells}
        # the property promises that no adjacency is LOST; contracting a border interface at a concave corner of the outline
        # can make two cells neighbours that only touched the contracted interface's two ends before
        if (adj_old - adj_new) or ((adj_new - adj_old) and not contracted):
            lost = sorted(adj_old - adj_new)[:3]
            mech = "adjacency"
            mon.fail(mech, "every cell-to-cell adjacency is kept", lost=lost, gained=sorted(adj_new - adj_old)[:3], rse=rse)
        c["npaths"] = len(old.paths)
        c["longest"] = max((len(P) for P in old.paths), default=0)
        return True

    inst.ensure(ve, "generate_mesh", resampling_preserves_structure, snapshots=[(before, "before")])
    _MON = mon
    return mon


def _state(v, e, c):
    return ({vid: (id(x), x.x, x.y) for vid, x in v.items()},
            {cid: [id(w) for w in x.vertices] for cid, x in c.items()},
            sorted(tuple(sorted((x.v1.id, x.v2.id))) for x in e.values()))


def _relabel_chain(mon, nfail0, has_chain):
    if has_chain:
        # a chain contraction can only disturb what touches vertices of fewer than three cells; junctions of three or more
        # cells, surviving vertices, cells and the length rules are never excused by it
        never = {"junction-lost", "junction-moved", "vertex-moved", "cell-lost", "interface-too-long", "short-interface-changed",
                 "cell-invented"}
        for f in mon.fails[nfail0:]:
            if not f["mech"].startswith("F-") and f["mech"] not in never:
                f["detail"]["original_mech"] = f["mech"]
                f["mech"] = "F-CONTRACT-CHAIN"


def _apply(v, e, c, ne, rse, mon, hist, sigs, label, ncells0):
    from forsys import virtual_edges as ve
    from forsys.exceptions import SegmentationArtifactException
    from fv.oracle import topo
    CTX["cur"] = cur = {}
    # chain predicate evaluated beforehand (needed to classify an exception)
    t = topo.Topo(v, e, c)
    two = [vp for vp, ep in t.paths if len(vp) == 2 and len(vp) <= ne and len(t.vcells[vp[0]]) < 3 and len(t.vcells[vp[1]]) < 3
           and len(t.vcells[vp[0]] & t.vcells[vp[1]]) < 2]
    cnt = {}
    for vp in two:
        for x in vp:
            cnt[x] = cnt.get(x, 0) + 1
    has_chain = rse and topo.contraction_chain(t, ne)
    # runs of exactly two: contracted correctly in general; the one known failure there is an IndexError in the bookkeeping
    # of join_two_vertices (same finding), nothing else is excused
    run_of_two = rse and not has_chain and topo.contraction_chain(t, ne, min_interfaces=2)
    nfail0 = len(mon.fails)
    try:
        out = ve.generate_mesh(v, e, c, ne=ne, replace_short_edges=rse)
    except SegmentationArtifactException as exc:
        CTX.pop("cur", None)
        mon.fail("F-CONTRACT-CHAIN" if has_chain else "raises-artifact", "resampling returns a mesh", ne=ne, rse=rse,
                 chain=has_chain, label=label)
        return None
    except Exception as exc:
        import traceback
        CTX.pop("cur", None)
        known_ = has_chain or (run_of_two and isinstance(exc, IndexError) and "join_two_vertices" in traceback.format_exc())
        mon.fail("F-CONTRACT-CHAIN" if known_ else "raises", "resampling returns a mesh", exc=repr(exc)[:200], ne=ne, rse=rse, chain=has_chain, label=label,
                 tb=traceback.format_exc()[-500:])
        return None
    CTX.pop("cur", None)
    if cur.get("npaths"):
        sigs.append([label, ncells0, cur["npaths"], ne, rse, cur["contracted"], cur["longest"]])
        hist["contracted-interfaces"] = hist.get("contracted-interfaces", 0) + cur["contracted"]
        if cur["chain"]:
            hist["chains"] = hist.get("chains", 0) + 1
    # idempotence (not monitored by the structural contract a second time: CTX is cleared)
    s1 = _state(out[0], out[1], out[2])
    t1 = topo.Topo(out[0], out[1], out[2])
    canon = [topo.canon(vp) for vp, ep in t1.paths]
    # two distinct interfaces with the same vertex sequence, or two mesh edges joining the same two vertices (digon): the
    # interface list of the next pass is de-duplicated by vertex sequence (known finding F-PARALLEL-INTERFACES)
    parallel = len(set(canon)) != len(canon) or len(set(s1[2])) != len(s1[2])
    try:
        out2 = ve.generate_mesh(out[0], out[1], out[2], ne=ne, replace_short_edges=rse)
    except Exception as exc:
        mon.fail("second-pass-raises", "resampling an already resampled mesh changes nothing", exc=repr(exc)[:200], ne=ne, rse=rse)
        _relabel_chain(mon, nfail0, has_chain)
        return out
    s2 = _state(out2[0], out2[1], out2[2])
    mon.count("clause:idempotent")
    if s1 != s2:
        what = [n for n, a, b in zip(("vertices", "cycles", "edges"), s1, s2) if a != b]
        mon.fail("F-PARALLEL-INTERFACES" if (parallel and what == ["edges"] and len(s2[2]) < len(s1[2])) else "not-idempotent", "resampling an already resampled mesh changes nothing", differs=what, ne=ne, rse=rse)
    _relabel_chain(mon, nfail0, has_chain)
    return out2


def run_case(case):
    from fv import env
    from fv.gen import scen, realise, tissue
    mon = _install()
    mon.reset()
    rng = np.random.default_rng(case["seed"])
    sigs, hist = [], {}
    fam = case["fam"]
    with env.Capture() as cap:
        if fam == "synth":
            for _ in range(case["count"]):
                # lattices bring four-fold junctions, T-junctions and three-cell junctions lying on the outline
                at = scen.base_tissue(rng, ["vor", "arc", "mob", "vor", "arc", "mob", "lat-square", "lat-brick", "lat-hex"][int(rng.integers(9))],
                                      ncells=int(rng.integers(8, 50)))
                if rng.random() < 0.6:
                    at = at.sub(tissue.random_connected_subset(rng, at, int(rng.integers(2, len(at.cells) + 1))))
                if rng.random() < 0.3 and len(at.cells) > 8:
                    ids = sorted(at.cells)
                    drop = set(int(x) for x in rng.choice(ids, size=max(1, len(ids) // 8), replace=False))
                    at = at.sub(max(at.components([x for x in ids if x not in drop]), key=len))
                if rng.random() < 0.5:
                    at = at.similarity(shift=complex(*rng.uniform(-40, 10, 2)))
                kk = [(0, 40), (0, 3), (1, 12), int(rng.integers(0, 3))][int(rng.integers(4))]
                r = realise.realise(at, k=kk, rng=rng, relabel=bool(rng.integers(2)), shifts=True, flips="random",
                                    edge_dirs=True, spacing="random" if rng.random() < 0.3 else "uniform")
                _apply(r.vertices, r.edges, r.cells, int(rng.integers(1, 13)), bool(rng.random() < 0.6), mon, hist, sigs,
                       "synth", len(at.cells))
        elif fam == "lat-short":
            # lattice sub-tissues with two-point (and a few three-point) interfaces: concave corners of the outline put
            # junctions of three cells ON the outline, next to two-point border interfaces
            for _ in range(case["count"]):
                at = scen.base_tissue(rng, ["lat-square", "lat-brick", "lat-square"][int(rng.integers(3))])
                if len(at.cells) > 3:
                    at = at.sub(tissue.random_connected_subset(rng, at, int(rng.integers(3, len(at.cells) + 1))))
                r = realise.realise(at, k=0 if rng.random() < 0.6 else (0, 1), rng=rng, relabel=bool(rng.integers(2)), shifts=True,
                                    flips="random", edge_dirs=True)
                _apply(r.vertices, r.edges, r.cells, int(rng.integers(2, 8)), True, mon, hist, sigs, "lat-short", len(at.cells))
        elif fam == "pendant":
            # a cell that hangs on the tissue by ONE vertex: its outline is one closed interface [j, ..., j]
            for _ in range(case["count"]):
                at = scen.base_tissue(rng, ["lat-square", "lat-hex", "lat-square"][int(rng.integers(3))])
                ids = tissue.pendant_subset(rng, at, int(rng.integers(1, max(2, len(at.cells) - 2)))) if len(at.cells) > 3 else None
                if ids is None:
                    hist["no-pendant-found"] = hist.get("no-pendant-found", 0) + 1
                    continue
                at = at.sub(ids)
                if rng.random() < 0.5:
                    at = tissue.bulge(rng, at, 0.2)
                r = realise.realise(at, k=[(1, 6), int(rng.integers(1, 9)), (0, 3)][int(rng.integers(3))], rng=rng,
                                    relabel=bool(rng.integers(2)), shifts=True, flips="random", edge_dirs=True)
                hist["pendant-tissues"] = hist.get("pendant-tissues", 0) + 1
                # ne >= 3: a closed interface cannot be represented by one or two segments (the clauses of the property
                # contradict each other there: both ends retained, at most ne+1 points, the cell kept)
                _apply(r.vertices, r.edges, r.cells, int(rng.integers(3, 13)), bool(rng.random() < 0.5), mon, hist, sigs,
                       "pendant", len(at.cells))
        elif fam == "se-fixture":
            from forsys import surface_evolver as se
            lat = se.SurfaceEvolver(os.path.join(FIX, case["file"]))
            _apply(lat.vertices, lat.edges, lat.cells, case["ne"], True, mon, hist, sigs, case["file"], len(lat.cells))
        elif fam == "skeleton-fixture":
            from forsys import skeleton
            sk = skeleton.Skeleton(os.path.join(FIX, case["file"]))
            v, e, c = sk.create_lattice()
            _apply(v, e, c, case["ne"], case["rse"], mon, hist, sigs, case["file"], len(c))
    if cap.unraisable:
        mon.fail("unraisable", "no destructor raises", events=cap.unraisable[:3])
    hist["fam:" + fam] = 1
    res = {"counters": dict(mon.evals), "hist": hist}
    if mon.fails:
        res.update(status="violated", findings=mon.fails)
        if sigs:
            res["sigs"] = sigs
        return res
    if not sigs:
        res.update(status="inconclusive", reason="no-interface")
        return res
    res.update(status="held", sigs=sigs, sig=sigs[0], observed={"calls": len(sigs)})
    return res
