"""C20 Cell geometry primitives: signed area, perimeter, orientation, navigation, neighbours, area additivity.

Monitors: icontract post-conditions on the real Cell.get_area / get_area_sign / get_perimeter / get_next_vertex /
get_previous_vertex / calculate_neighbors (reference computations written from the property text), plus metamorphic
comparators (reversal, cyclic shift, translation, scaling) and the additivity oracle (outline area) on tissues."""
import numpy as np

ID = "C20"
RULE = ("random simple polygons (convex / star / 2-opt-untangled non-convex, 3..80 vertices, both orientations, random "
        "cyclic shift, offsets up to 1e4 sizes, scales 1e-3..1e3) and synthetic Voronoi/arc tissues and their connected "
        "hole-free sub-tissues; distinct = (kind, vertex count, orientation) for polygons, (cells, junctions, points "
        "per interface, flipped cells) for tissues; non-trivial = non-zero area"
        ' Added after the seeded rounds: cells removed through ForSys.remove_cell and neighbours asked again, rectilinear polygons with collinear runs, pickled meshes with large cell ids.'
        ' Convex polygons with integer (pixel) coordinates.')
MIN_DECISIVE = {"quick": 40, "thorough": 300}
REQUIRED_COUNTERS = ["post:get_area", "post:get_perimeter", "post:get_next_vertex", "post:calculate_neighbors",
                     "tissue:additivity"]
ASSUMPTIONS = ["the reference shoelace/perimeter/outline computations in fv.gen.poly and this module are correct",
               "tolerances: backward-error bound 16*n*eps*max|x|*max|y| for areas, 16*n*eps*max|coord| for lengths"]
CASE_TIMEOUT = {"quick": 120, "thorough": 300}

EPS = np.finfo(float).eps


def anchors():
    from fv import env  # noqa
    from forsys import cell as fc
    return [fc.Cell.get_area, fc.Cell.get_area_sign, fc.Cell.get_perimeter, fc.Cell.get_next_vertex,
            fc.Cell.get_previous_vertex, fc.Cell.calculate_neighbors]


def cases(seed, tier):
    npoly = 60 if tier == "quick" else 300
    ntis = 60 if tier == "quick" else 500
    out = [{"fam": "poly", "seed": [seed, 20, i], "count": 60} for i in range(npoly)]
    out += [{"fam": "tissue", "seed": [seed, 20, 10 ** 6 + i]} for i in range(ntis)]
    if tier != "quick":
        out.append({"fam": "suite", "seed": [seed, 0, 0]})
    return out


# ---------------------------------------------------------------------------------------------------------
_MON = None
_INST = None


def _install():
    global _MON, _INST
    if _MON is not None:
        return _MON
    from fv import contracts
    from forsys import cell as fc
    mon = contracts.Monitor()
    inst = contracts.Installed()

    def zarr(self):
        return np.array([complex(v.x, v.y) for v in self.vertices])

    def area_tol(z):
        return 16 * len(z) * EPS * max(np.abs(z.real).max(), 1e-300) * max(np.abs(z.imag).max(), 1e-300) + 1e-300

    def area_is_negated_shoelace(self, result):
        from fv.gen import poly
        mon.count("post:get_area")
        z = zarr(self)
        ref = -poly.shoelace(z)
        if not np.isfinite(result) or abs(result - ref) > area_tol(z):
            mon.fail("area-value", "area = -(shoelace)", got=float(result), ref=ref, n=len(z))
        return True

    def sign_is_sign_of_area(self, result):
        from fv.gen import poly
        mon.count("post:get_area_sign")
        z = zarr(self)
        ref = -poly.shoelace(z)
        if abs(ref) > area_tol(z):
            if result != int(np.sign(ref)) or not isinstance(result, (int, np.integer)):
                mon.fail("area-sign", "sign = sign(area), an int", got=repr(result), ref=int(np.sign(ref)))
        return True

    def perimeter_is_cycle_length(self, result):
        from fv.gen import poly
        mon.count("post:get_perimeter")
        z = zarr(self)
        if abs(poly.shoelace(z)) <= area_tol(z):
            return True
        ref = poly.perimeter(z)
        tol = 16 * len(z) * EPS * max(np.abs(z).max(), 1e-300) + 1e-300
        if not np.isfinite(result) or abs(result - ref) > tol:
            mon.fail("perimeter-value", "perimeter = closed cycle length", got=float(result), ref=ref, n=len(z))
        return True

    def next_steps_by_area_sign(self, v, result):
        from fv.gen import poly
        mon.count("post:get_next_vertex")
        z = zarr(self)
        s = -poly.shoelace(z)
        if abs(s) <= area_tol(z):
            return True
        i = [k for k, w in enumerate(self.vertices) if w is v]
        if len(i) == 1:
            ref = self.vertices[(i[0] + int(np.sign(s))) % len(self.vertices)]
            if result is not ref:
                mon.fail("next-vertex", "next steps through the stored cycle in the sense of the area sign",
                         idx=i[0], sign=int(np.sign(s)))
        return True

    def previous_steps_against_area_sign(self, v, result):
        from fv.gen import poly
        mon.count("post:get_previous_vertex")
        z = zarr(self)
        s = -poly.shoelace(z)
        if abs(s) <= area_tol(z):
            return True
        i = [k for k, w in enumerate(self.vertices) if w is v]
        if len(i) == 1:
            ref = self.vertices[(i[0] - int(np.sign(s))) % len(self.vertices)]
            if result is not ref:
                mon.fail("previous-vertex", "previous steps against the area sign", idx=i[0])
        return True

    def neighbours_share_a_vertex(self, result):
        mon.count("post:calculate_neighbors")
        reg = getattr(self, "_fv_registry", None)
        if reg is None:
            return True
        mine = {id(v) for v in self.vertices}
        ref = {cid for cid, c in reg.items() if c is not self and any(id(v) in mine for v in c.vertices)}
        if set(result) != ref or len(set(result)) != len(result) or self.neighbors is not result and list(self.neighbors) != list(result):
            mon.fail("neighbours", "neighbours = other cells sharing a vertex", got=sorted(result), ref=sorted(ref))
        return True

    inst.ensure(fc.Cell, "get_area", area_is_negated_shoelace)
    inst.ensure(fc.Cell, "get_area_sign", sign_is_sign_of_area)
    inst.ensure(fc.Cell, "get_perimeter", perimeter_is_cycle_length)
    inst.ensure(fc.Cell, "get_next_vertex", next_steps_by_area_sign)
    inst.ensure(fc.Cell, "get_previous_vertex", previous_steps_against_area_sign)
    inst.ensure(fc.Cell, "calculate_neighbors", neighbours_share_a_vertex)
    _MON, _INST = mon, inst
    return mon


def _mkcell(z, cid=0):
    from forsys import vertex as fvx, cell as fc
    if all(float(p.real).is_integer() and float(p.imag).is_integer() and abs(p) < 2 ** 40 for p in z):
        # pixel coordinates arrive as Python / numpy integers
        vs = [fvx.Vertex(i, int(p.real), int(p.imag)) for i, p in enumerate(z)]
    else:
        vs = [fvx.Vertex(i, float(p.real), float(p.imag)) for i, p in enumerate(z)]
    return fc.Cell(cid, vs), vs


def _poly_case(case, mon):
    from fv.gen import poly
    rng = np.random.default_rng(case["seed"])
    sigs = []
    nchecked = 0
    for _ in range(case["count"]):
        kind = ["convex", "star", "nonconvex", "rectilinear", "intgrid"][int(rng.integers(5))]
        if kind == "intgrid":
            # convex polygon whose corners are pixel (integer) coordinates: oblique sides of irrational length
            import scipy.spatial as _sp
            P_ = rng.integers(0, 40, (int(rng.integers(6, 30)), 2))
            try:
                hull = _sp.ConvexHull(P_)
            except Exception:
                continue
            z = np.array([complex(int(P_[i, 0]), int(P_[i, 1])) for i in hull.vertices]) + \
                complex(int(rng.integers(-100, 100)), int(rng.integers(-100, 100)))
            n = len(z)
            size = np.abs(z - z.mean()).max()
            scale0 = 1.0
        elif kind == "rectilinear":
            # axis-parallel rectangle on an integer grid with extra vertices ON its sides: runs of exactly collinear
            # vertices, several vertices sharing the smallest x / y (pixel outlines look like this)
            w, h = int(rng.integers(1, 6)), int(rng.integers(1, 6))
            corners = [(0, 0), (w, 0), (w, h), (0, h)]
            g = 12
            pts = []
            for (x0, y0), (x1, y1) in zip(corners, corners[1:] + corners[:1]):
                cuts = sorted(set(int(c_) for c_ in rng.integers(1, g, int(rng.integers(0, 4)))))
                for c_ in [0] + cuts:
                    pts.append(complex(x0 * g + (x1 - x0) * c_, y0 * g + (y1 - y0) * c_))
            z = np.array(pts) * float(2.0 ** rng.integers(-6, 7)) + complex(int(rng.integers(-50, 50)), int(rng.integers(-50, 50)))
            n = len(z)
            size = np.abs(z - z.mean()).max()
            scale0 = 1.0
        else:
            n = int(rng.integers(3, 81)) if kind != "nonconvex" else int(rng.integers(4, 31))
            z = poly.polygon(rng, kind, n)
            n = len(z)
            size = np.abs(z - z.mean()).max()
            scale0 = 10 ** rng.uniform(-3, 3)
            off = (rng.uniform(-1, 1) + 1j * rng.uniform(-1, 1)) * size * scale0 * 10 ** rng.uniform(-2, 4)
            z = z * scale0 * np.exp(1j * rng.uniform(0, 2 * np.pi)) + off
        cw = bool(rng.integers(2))
        shift = int(rng.integers(n))
        zz = np.roll(z, -shift)
        if cw:
            zz = zz[::-1].copy()
        try:
            c, vs = _mkcell(zz)
        except (FloatingPointError, ZeroDivisionError, ValueError):
            mon.count("construct-error")
            continue
        ref = -poly.shoelace(zz)
        tol = 16 * n * EPS * np.abs(zz.real).max() * np.abs(zz.imag).max() + 1e-300
        if abs(ref) <= 10 * tol:
            continue
        a = c.get_area()
        sg = c.get_area_sign()
        p = c.get_perimeter()
        # orientation convention: counter-clockwise (y-up) storage <=> negative area
        if (a < 0) != (not cw):
            mon.fail("area-orientation", "negative for counter-clockwise storage", cw=cw, area=float(a))
        # navigation closes the cycle in the sense of the sign
        v = vs[int(rng.integers(n))]
        w = c.get_next_vertex(v)
        if c.get_previous_vertex(w) is not v:
            mon.fail("prev-next", "previous(next(v)) is v")
        walk, cur = 0, v
        for _i in range(n):
            cur = c.get_next_vertex(cur)
            walk += 1
        if cur is not v:
            mon.fail("walk", "n steps of next return to the start")
        # reversal flips the sign, keeps magnitude and perimeter
        c2, _ = _mkcell(zz[::-1].copy())
        if abs(c2.get_area() + a) > 2 * tol or c2.get_area_sign() != -sg:
            mon.fail("reversal", "area changes sign under reversal", a=float(a), a_rev=float(c2.get_area()))
        ptol = 16 * n * EPS * np.abs(zz).max()
        if abs(c2.get_perimeter() - p) > 2 * ptol:
            mon.fail("reversal-perimeter", "perimeter unchanged by reversal", p=float(p), p_rev=float(c2.get_perimeter()))
        # cyclic shift
        s2 = int(rng.integers(1, n))
        c3, _ = _mkcell(np.roll(zz, s2))
        if abs(c3.get_area() - a) > 2 * tol or abs(c3.get_perimeter() - p) > 2 * ptol:
            mon.fail("cyclic-shift", "area/perimeter unchanged by cyclic shift", a=float(a), a2=float(c3.get_area()))
        # translation
        t = (rng.uniform(-1, 1) + 1j * rng.uniform(-1, 1)) * size * scale0 * 10 ** rng.uniform(0, 4)
        zt = zz + t
        c4, _ = _mkcell(zt)
        tol4 = 16 * n * EPS * np.abs(zt.real).max() * np.abs(zt.imag).max() + tol
        if abs(c4.get_area() - a) > tol4 or abs(c4.get_perimeter() - p) > 16 * n * EPS * np.abs(zt).max() + ptol:
            mon.fail("translation", "area/perimeter unchanged by translation", a=float(a), a2=float(c4.get_area()),
                     offset=abs(t) / (size * scale0))
        # scaling
        s = 10 ** rng.uniform(-3, 3)
        c5, _ = _mkcell(zz * s)
        if abs(c5.get_area() - a * s * s) > 4 * tol * s * s or abs(c5.get_perimeter() - p * s) > 4 * ptol * s:
            mon.fail("scaling", "area x s^2, perimeter x s", s=float(s), a=float(a), a2=float(c5.get_area()))
        sigs.append([kind, n, "cw" if cw else "ccw"])
        nchecked += 1
    return sigs, nchecked


def _outline_area(cellcycles):
    """area enclosed by the outline = union of the cells, from mesh edges that belong to exactly one cell"""
    cnt = {}
    for cyc in cellcycles:
        for a, b in zip(cyc, cyc[1:] + cyc[:1]):
            cnt.setdefault(frozenset((a, b)), []).append((a, b))
    nxt = {}
    for k, l in cnt.items():
        if len(l) == 1:
            a, b = l[0]
            nxt.setdefault(a, []).append(b)
    return nxt


def _tissue_case(case, mon):
    from fv.gen import tissue, realise, poly
    from fv import env
    rng = np.random.default_rng(case["seed"])
    n = int(rng.integers(8, 60))
    if rng.random() < 0.3:
        # square / brick lattices: cells that touch in a single (four-fold) vertex
        from fv.gen import scen
        at = scen.base_tissue(rng, ["lat-square", "lat-brick", "lat-square"][int(rng.integers(3))])
        mode = 0
    else:
        at = tissue.voronoi(rng, n=n, kind=["uniform", "hex", "disc"][int(rng.integers(3))])
        mode = int(rng.integers(3))
    if mode == 1:
        at = tissue.random_mobius(rng, at)
    elif mode == 2:
        at = tissue.bulge(rng, at, 0.25)
    if rng.random() < 0.5 and len(at.cells) > 4:
        sub = tissue.random_connected_subset(rng, at, int(rng.integers(2, len(at.cells))))
        at = at.sub(sub)
    if rng.random() < 0.5:
        at = at.similarity(scale=10 ** rng.uniform(-2, 2), theta=rng.uniform(0, 6.28),
                           shift=complex(*rng.uniform(-1e3, 1e3, 2)))
    with env.Capture():
        kk = (0, 6) if not at.meta.get("kind", "").startswith("lat-") or rng.random() < 0.3 else 0
        pickled = rng.random() < 0.3
        r = realise.realise(at, k=kk, rng=rng, relabel=bool(rng.integers(2)), shifts=True, flips="random",
                            cell_id_base=1000 if pickled else 0)
        if pickled:
            # a mesh that went through pickle (multiprocessing, a cache on disk): equal ids are no longer the same objects
            import pickle
            r.vertices, r.edges, r.cells = pickle.loads(pickle.dumps((r.vertices, r.edges, r.cells)))
            mon.count("tissue:pickled")
    for c in r.cells.values():
        c._fv_registry = r.cells
    cyc_ccw = []
    tot = 0.0
    maxc = max(max(abs(v.x), abs(v.y)) for v in r.vertices.values())
    for cid, c in r.cells.items():
        a = c.get_area()
        tot += abs(a)
        c.get_perimeter()
        c.calculate_neighbors()
        ids = [v.id for v in c.vertices]
        cyc_ccw.append(ids if a < 0 else ids[::-1])
    # hole-free? outline must be a single closed loop
    nxt = _outline_area(cyc_ccw)
    if any(len(v) != 1 for v in nxt.values()):
        return None, "outline-not-simple"
    start = next(iter(nxt))
    loop, cur = [start], nxt[start][0]
    while cur != start and len(loop) <= len(nxt):
        loop.append(cur)
        cur = nxt[cur][0]
    if len(loop) != len(nxt):
        return None, "tissue-with-hole"
    z = np.array([complex(r.vertices[i].x, r.vertices[i].y) for i in loop])
    ref = abs(poly.shoelace(z))
    mon.count("tissue:additivity")
    tol = 64 * len(r.vertices) * EPS * maxc * maxc
    if abs(tot - ref) > tol:
        mon.fail("additivity", "sum |cell area| = area enclosed by the outline", total=tot, outline=ref, tol=tol)
    removed = 0
    if rng.random() < 0.6 and len(r.cells) > 3:
        # sub-tissue of the SAME objects: cells removed one after the other through the public API (the frame is rebuilt
        # from the surviving objects and asks every cell for its neighbours again)
        import forsys as fs
        from forsys import frames
        # removal works through Cell.__del__: the harness must not keep a removed cell alive
        c = None
        try:
            with env.Capture():
                solver = fs.ForSys({0: frames.Frame(0, r.vertices, r.edges, r.cells)})
                for _ in range(int(rng.integers(1, 4))):
                    if len(r.cells) <= 2:
                        break
                    cid = sorted(r.cells)[int(rng.integers(len(r.cells)))]
                    solver.remove_cell(0, cid)
                    removed += 1
                    mon.count("tissue:cell-removed")
                    for cid2 in sorted(r.cells):
                        r.cells[cid2].calculate_neighbors()
        except Exception as exc:
            mon.count("tissue:remove-raised")
    return [["tissue", len(r.cells), len(at.J), sorted(set(r.ks.values())), len(r.flipset), removed]], None



def _suite_case(prop_id):
    """the repository's own test-suite as an extra workload, run under this property's monitors (shipped fixtures)"""
    from fv import suite
    data, tail = suite.run(prop_id)
    if data is None or data.get("exitstatus") not in (0, 1):
        return {"status": "inconclusive", "reason": "suite-did-not-run", "trace": tail}
    counters = {"suite:" + k: v for k, v in data["evals"].items()}
    counters["suite:runs"] = 1
    fails = list(data["fails"])
    if data.get("unraisable"):
        fails.append({"mech": "unraisable", "clause": "no destructor raises", "detail": {"events": data["unraisable"]}})
    if data.get("monitor_errors"):
        return {"status": "inconclusive", "reason": "monitor-error", "trace": data["monitor_errors"][-1], "counters": counters}
    if fails:
        return {"status": "violated", "findings": fails, "counters": counters, "sigs": [["suite"]]}
    if not data["evals"]:
        return {"status": "inconclusive", "reason": "suite-reached-no-monitor", "counters": counters}
    return {"status": "held", "sigs": [["suite", sum(data["evals"].values())]], "sig": ["suite"], "counters": counters,
            "observed": {"monitor_evaluations_in_suite": data["evals"]}}


def run_case(case):
    if case.get("fam") == "suite":
        return _suite_case(ID)
    mon = _install()
    mon.reset()
    if case["fam"] == "poly":
        sigs, n = _poly_case(case, mon)
        reason = None if n else "no-polygon"
    else:
        sigs, reason = _tissue_case(case, mon)
    if mon.fails:
        return {"status": "violated", "findings": mon.fails, "counters": mon.evals}
    if not sigs:
        return {"status": "inconclusive", "reason": reason or "none", "counters": mon.evals}
    return {"status": "held", "sigs": sigs, "sig": sigs[0], "counters": mon.evals, "observed": {"n": len(sigs)}}
