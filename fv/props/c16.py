"""C16 Angle-limit exclusion drops exactly the flagged interfaces and solves the rest.

Monitor: post-conditions on the real ForceMatrix.__post_init__ (flagged junctions, excluded unknowns) and on
ForSys.solve_stress (-1 at the excluded positions, restricted-system solution elsewhere), using the directions the object
itself reports (their correctness is C02's subject) and the oracle's own NNLS solve of the restricted system derived from
the FULL system (limit = infinity)."""
import numpy as np

ID = "C16"
RULE = ("equilibrium (Moebius), noisy/non-equilibrium (bulged) and straight tissues and axis-aligned lattices x angle limits "
        "0.5*pi..pi (uniform, plus limits placed 1e-3..1e-1 below/above a junction's actual maximal opening) and the defaults "
        "(ForSys: none given; explicit inf; explicit pi) x static and velocity right-hand sides x default and lsq back-ends "
        "(lsq with user initial conditions). distinct = (family, unknowns, excluded, flagged junctions, limit class, method, "
        "rhs); non-trivial = at least one junction equation in the full system"
        " Added after the seeded rounds: lattices with 4..10-fold junctions, a second scan of limits after the frame's vertices moved in place.")
MIN_DECISIVE = {"quick": 150, "thorough": 2000}
REQUIRED_COUNTERS = ["post:ForceMatrix", "deletes:checked", "post:solve_stress", "solution:compared"]
REQUIRED_HIST = {"any": ["with-exclusion", "no-exclusion", "method:default", "method:lsq", "rhs:velocity", "default-limit"]}
TECHNIQUE = ("runtime contracts on ForceMatrix.__post_init__ / ForSys.solve_stress; restricted-system reference solved by the "
             "oracle's NNLS from the full (no-limit) system")
CASE_TIMEOUT = {"quick": 500, "thorough": 1500}
ASSUMPTIONS = ["junctions whose maximal opening is within 1e-7 of the limit are numerically undecidable and not judged",
               "exactly straight-through junctions (opening == pi) are outside both clauses when the limit is pi"]
CTX = {}


def anchors():
    from fv import env  # noqa
    import forsys as fs
    from forsys import fmatrix
    F = fmatrix.ForceMatrix
    return [F.get_angle_limited_edges, F.get_solution_no_discarded, F.get_new_initial_condition, F.__post_init__,
            fs.ForSys.build_force_matrix, F.solve]


def cases(seed, tier):
    q = tier == "quick"
    out = [{"fam": ["mob", "arc", "vor", "arc"][i % 4], "seed": [seed, 16, i], "count": 2} for i in range(64 if q else 500)]
    out += [{"fam": ["lat-square", "lat-brick", "lat-hex", "lat-tri", "lat-fan", "lat-diamond", "lat-rosette"][i % 7], "seed": [seed, 16, 10 ** 5 + i], "count": 2}
            for i in range(14 if q else 70)]
    out += [{"fam": "series", "seed": [seed, 16, 2 * 10 ** 5 + i], "count": 1} for i in range(16 if q else 200)]
    return out


_MON = None


def _openings(fm, vid):
    vertex = fm.frame.vertices[vid]
    vs = [fm.frame.big_edges[b].get_versor_from_vertex(vid, fit_method=fm.circle_fit_method) for b in vertex.own_big_edges]
    best = 0.0
    for i in range(len(vs)):
        for j in range(i + 1, len(vs)):
            best = max(best, float(np.arccos(np.clip(np.dot(vs[i], vs[j]), -1, 1))))
    return best


def _install():
    global _MON
    if _MON is not None:
        return _MON
    from fv import contracts
    from fv.oracle import fb
    import forsys as fs
    from forsys import fmatrix
    mon = contracts.Monitor()
    inst = contracts.Installed()

    def exclusion_rule_is_exact(self):
        c = CTX.get("cur")
        if c is None or self.externals_to_use != []:
            return True
        mon.count("post:ForceMatrix")
        lim = self.angle_limit
        internal = [b.get_vertices_ids() for b in self.frame.internal_big_edges]
        ends = sorted({p[0] for p in internal} | {p[-1] for p in internal})
        undec = set()
        ref_del = set()
        for vid in ends:
            mon.count("deletes:checked")
            o = _openings(self, vid)
            if abs(o - lim) <= 1e-7:
                undec.add(vid)
            elif o >= lim:
                ref_del.add(vid)
        got_del = set(self.deletes)
        if (got_del - undec) != (ref_del - undec):
            mon.fail("flagged-junctions", "a junction is flagged exactly when some pair of interface directions there opens "
                     "by at least the limit", only_code=sorted(got_del - ref_del - undec)[:5],
                     only_oracle=sorted(ref_del - got_del - undec)[:5], limit=float(lim))
        if any(p[0] in undec or p[-1] in undec for p in internal):
            c["undecidable"] = True
        excl = [p for p in internal if p[0] in got_del and p[-1] in got_del]
        ref_use = [p for p in internal if not (p[0] in got_del and p[-1] in got_del)]
        if [list(p) for p in self.big_edges_to_use] != [list(p) for p in ref_use]:
            mon.fail("excluded-set", "an internal interface is excluded exactly when both its end junctions are flagged; the "
                     "others stay, in order", n_used=len(self.big_edges_to_use), n_expected=len(ref_use))
        if not np.isfinite(lim) and (got_del or len(self.big_edges_to_use) != len(internal)):
            mon.fail("default-excludes", "with the default limit nothing is excluded", flagged=len(got_del))
        c["excluded"] = len(excl)
        c["flagged"] = len(got_del)
        c["n_internal"] = len(internal)
        return True

    def result_is_restricted_solution(self, when, _KWARGS):
        c = CTX.get("cur")
        if c is None:
            return True
        mon.count("post:solve_stress")
        fm = self.force_matrices[when]
        frame = self.frames[when]
        internal = [b.get_vertices_ids() for b in frame.internal_big_edges]
        res = self.forces[when]
        vals = np.array([res[i] for i in range(len(internal))], float) if all(i in res for i in range(len(internal))) else None
        if vals is None or len([k for k in res if isinstance(k, (int, np.integer))]) != len(internal):
            mon.fail("result-length", "one reported value per internal interface", n=len(internal), keys=len(res))
            return True
        is_ex = np.array([(p[0] in fm.deletes and p[-1] in fm.deletes) for p in internal])
        if np.any(vals[is_ex] != -1):
            mon.fail("minus-one", "excluded interfaces are reported as -1 at their own position", got=vals[is_ex][:5].tolist())
        if np.any(vals[~is_ex] == -1) and is_ex.any():
            mon.fail("minus-one-misplaced", "-1 appears only at excluded positions")
        if c.get("undecidable"):
            return True
        # restricted system from the FULL system
        full = c["full"]
        Afull = np.array(full.matrix, float)
        cols_full = [list(p) for p in full.big_edges_to_use]
        keep_cols = [i for i, p in enumerate(cols_full) if not (p[0] in fm.deletes and p[-1] in fm.deletes)]
        if [cols_full[i] for i in keep_cols] != [list(p) for p in fm.big_edges_to_use]:
            return True            # already reported by the constructor contract
        kw = dict(_KWARGS)
        bfull, _avg = full.set_velocity_matrix(self.mesh, **{k: v for k, v in kw.items() if k in
                                                               ("b_matrix", "adimensional_velocity", "velocity_normalization")})
        bfull = np.asarray(bfull, float).reshape(-1)
        rows, vids = [], []
        for vid, r0 in sorted(full.map_vid_to_row.items(), key=lambda kv: kv[1]):
            sub = Afull[r0:r0 + 2][:, keep_cols]
            if np.count_nonzero((sub[0] != 0) | (sub[1] != 0)) >= 3:
                rows += [r0, r0 + 1]
                vids.append(vid)
        A = Afull[rows][:, keep_cols] if rows else np.zeros((0, len(keep_cols)))
        b = bfull[rows] if rows else np.zeros(0)
        if kw.get("adimensional_velocity") and kw.get("b_matrix") == "velocity" and rows:
            # the mean junction speed is taken over the junctions of the RESTRICTED system
            speeds_full = [np.hypot(bfull[r0], bfull[r0 + 1]) * _avg for r0 in sorted(full.map_vid_to_row.values())]
            speeds_res = [np.hypot(bfull[r], bfull[r + 1]) * _avg for r in rows[::2]]
            if np.mean(speeds_res) > 0:
                b = b * _avg / np.mean(speeds_res)
        if set(vids) != set(fm.map_vid_to_row):
            mon.fail("restricted-junctions", "equations of the restricted system = junctions that still have three remaining "
                     "interfaces", code=len(fm.map_vid_to_row), oracle=len(vids))
            return True
        if A.shape[0] == 0:
            return True
        M, rhs = fb.augment(A, b)
        rhs = rhs.round(3)
        if M.shape[0] < M.shape[1]:
            c["nonunique"] = True
            return True
        s = np.linalg.svd(M, compute_uv=False)
        if s.min() < 1e-8 * s.max():
            c["nonunique"] = True
            return True
        method = kw.get("method")
        if kw.get("allow_negatives", True) and method is None and M.shape[0] == M.shape[1]:
            ref = np.linalg.solve(M, rhs)
        else:
            ref, _ = fb.nnls_ref(M, rhs)
        cond = s.max() / s.min()
        tol = {None: 1e-7, "lsq": 1e-3}[method] * cond
        if tol > 0.05:
            c["nonunique"] = True
            return True
        mon.count("solution:compared")
        d = float(np.abs(vals[~is_ex] - ref[:-1]).max())
        if d > tol:
            mon.fail("restricted-solution", "every other position holds the solution of the system restricted to the remaining "
                     "interfaces", diff=d, tol=tol, excluded=int(is_ex.sum()), method=method, path=getattr(fm, "_verif", {}).get("path"))
        else:
            c["worst"] = max(c.get("worst", 0.0), d / tol)
        return True

    inst.ensure(fmatrix.ForceMatrix, "__post_init__", exclusion_rule_is_exact)
    inst.ensure(fs.ForSys, "solve_stress", result_is_restricted_solution)
    _MON = mon
    return mon


def _limits(rng, fm_full):
    """limit classes: uniform in [0.5 pi, pi], just below / above an actual maximal opening, defaults"""
    ends = sorted({p[0] for p in fm_full.big_edges_to_use} | {p[-1] for p in fm_full.big_edges_to_use})
    ops = [_openings(fm_full, v) for v in ends] if ends else []
    out = [("uniform", float(rng.uniform(0.5 * np.pi, np.pi)))] if rng.random() < 0.5 else []
    if ops:
        o = ops[int(rng.integers(len(ops)))]
        d = float(10 ** rng.uniform(-3, -1))
        out.append(("just-below", o - d))
        out.append(("just-above", o + d))
        out.append(("q90", float(np.quantile(ops, 0.9))))
        out.append(("q97", float(np.quantile(ops, 0.97))))
        if rng.random() < 0.3:
            out.append(("median", float(np.median(ops))))
    out.append(("default", None))
    out.append(("inf", np.inf))
    return out


def run_case(case):
    from fv import env, dyn
    from fv.gen import scen, realise, tissue, series
    import forsys as fs
    from forsys import frames, fmatrix
    mon = _install()
    mon.reset()
    rng = np.random.default_rng(case["seed"])
    sigs, hist, metrics = [], {}, {}
    fam = case["fam"]
    for _ in range(case["count"]):
        with env.Capture() as cap:
            if fam == "series":
                at0 = scen.base_tissue(rng, "arc", ncells=int(rng.integers(20, 50)))
                ats = dyn.random_series(rng, at0, 3, frac=0.5)
                s = dyn.build(rng, ats, np.cumsum(rng.uniform(0.5, 2, 3)), k=int(rng.integers(1, 5)), relabel=True)
                solver = fs.ForSys(s.frames, cm=False)
                when = int(rng.integers(3))
                rhs_mode = "velocity"
            else:
                at = scen.base_tissue(rng, fam, ncells=int(rng.integers(20, 80)))
                if not fam.startswith("lat-"):
                    at, _ = scen.maybe_sub(rng, at, p=0.2, min_cells=10)
                    at, _p = scen.pose(rng, at, mode=["id", "rot", "sim"][int(rng.integers(3))])
                r = realise.realise(at, k=int(rng.integers(0 if fam in ("vor",) or fam.startswith("lat-") else 1, 7)), rng=rng,
                                    relabel=bool(rng.integers(2)), flips="random")
                if fam == "arc" and rng.random() < 0.5:
                    sp = min(np.hypot(e.v1.x - e.v2.x, e.v1.y - e.v2.y) for e in r.edges.values())
                    for v in r.vertices.values():
                        v.x = float(v.x + rng.normal(0, 0.03 * sp))
                        v.y = float(v.y + rng.normal(0, 0.03 * sp))
                solver = fs.ForSys({0: frames.Frame(0, r.vertices, r.edges, r.cells)})
                when = 0
                rhs_mode = "static"
            fit = ["dlite", "taubinSVD"][int(rng.integers(2))]
            frame = solver.frames[when]
            for rep in range(2):
                if rep == 1:
                    if rhs_mode != "static" or case["seed"][2] % 3 != 0:
                        break
                    # the SAME frame after its vertices moved in place (smoothing, drift correction): openings measured
                    # for the old geometry must not decide the exclusions of the new one
                    sp_ = min(np.hypot(e_.v1.x - e_.v2.x, e_.v1.y - e_.v2.y) for e_ in frame.edges.values())
                    for v_ in frame.vertices.values():
                        v_.x = float(v_.x + rng.normal(0, 0.04 * sp_))
                        v_.y = float(v_.y + rng.normal(0, 0.04 * sp_))
                    hist["moved-in-place"] = hist.get("moved-in-place", 0) + 1
                full = fmatrix.ForceMatrix(frame, externals_to_use="none", term="none", metadata={}, timeseries=solver.mesh,
                                           angle_limit=np.inf, circle_fit_method=fit)
                if full.matrix.shape[0] == 0:
                    break
                for cls, lim in _limits(rng, full):
                    method = None if (rng.random() < 0.8 or len(frame.internal_big_edges) > 60) else "lsq"
                    CTX["cur"] = cur = {"full": full}
                    kw = {"circle_fit_method": fit}
                    if lim is not None:
                        kw["angle_limit"] = lim
                    skw = {"allow_negatives": bool(rng.integers(2))}
                    if rhs_mode == "velocity":
                        skw["b_matrix"] = "velocity"
                        skw["adimensional_velocity"] = bool(rng.integers(2))
                    ic = None
                    if method == "lsq":
                        skw["method"] = "lsq"
                        skw["allow_negatives"] = False
                        if rng.random() < 0.7:
                            ic = list(rng.uniform(0.5, 1.5, len(frame.internal_big_edges)))
                            skw["initial_condition"] = ic
                            ic_copy = list(ic)
                    try:
                        solver.build_force_matrix(when=when, **kw)
                        solver.solve_stress(when=when, **skw)
                    except Exception as exc:
                        import traceback
                        fm = solver.force_matrices.get(when)
                        nex = len(frame.internal_big_edges) - len(fm.big_edges_to_use) if fm is not None else -1
                        mech = "solve-raises"
                        if method == "lsq" and nex > 0 and isinstance(exc, (AttributeError, TypeError)):
                            mech = "F-LSQ-EXCLUDED"
                        mon.fail(mech, "the restricted system is solved", exc=repr(exc)[:200], limit=None if lim is None else float(lim),
                                 cls=cls, method=method, excluded=nex, tb=traceback.format_exc()[-400:])
                        CTX.pop("cur", None)
                        continue
                    CTX.pop("cur", None)
                    if ic is not None and ic != ic_copy:
                        mon.fail("initial-condition-mutated", "the user's initial condition is not modified", cls=cls)
                    ex = cur.get("excluded", 0)
                    hist["with-exclusion" if ex else "no-exclusion"] = hist.get("with-exclusion" if ex else "no-exclusion", 0) + 1
                    hist["method:" + (method or "default")] = hist.get("method:" + (method or "default"), 0) + 1
                    hist["rhs:" + rhs_mode] = hist.get("rhs:" + rhs_mode, 0) + 1
                    if cls == "default":
                        hist["default-limit"] = hist.get("default-limit", 0) + 1
                        if ex:
                            mon.fail("default-excludes", "with the default limit nothing is excluded", excluded=ex)
                    if cur.get("nonunique"):
                        hist["restricted-system-not-unique"] = hist.get("restricted-system-not-unique", 0) + 1
                    metrics["diff_over_tol"] = max(metrics.get("diff_over_tol", 0.0), cur.get("worst", 0.0))
                    sigs.append([fam, cur.get("n_internal"), ex, cur.get("flagged"), cls, method or "default", rhs_mode])
        if cap.unraisable:
            mon.fail("unraisable", "no destructor raises", events=cap.unraisable[:2])
    res = {"counters": dict(mon.evals), "hist": hist, "metrics": metrics}
    if mon.fails:
        res.update(status="violated", findings=mon.fails)
        if sigs:
            res["sigs"] = sigs
        return res
    if not sigs:
        res.update(status="inconclusive", reason="no-equation")
        return res
    res.update(status="held", sigs=sigs, sig=sigs[0], observed={"solves": len(sigs), **metrics})
    return res
