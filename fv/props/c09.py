"""C09 Every construction or editing path yields a consistent vertex-edge-cell mesh.

Monitors: O-MESH as icontract post-condition on every parser's create_lattice, on generate_mesh (quiescent point of the
vertex merging) and on Frame.__post_init__; destructor trap (sys.unraisablehook) and diagnostic-print trap.  The garbage
collector's schedule is the fault dimension: back-references are edited by __del__, whose timing depends on who still
holds the old objects."""
import gc
import os
import tempfile
import numpy as np

ID = "C09"
RULE = ("meshes from: generated arc/Voronoi tissues and sub-tissues with holes/bridges, shipped and generated Surface "
        "Evolver dumps, shipped skeleton images and generated rasters (clean and raw with artefact triangles), WKT text, "
        "tessellations of random centres; each followed by a random sequence (1..4) of generate_mesh(ne=2..12, "
        "replace_short_edges on/off) and Frame construction, under three reference-holding schedules (none / gc disabled "
        "during the call / previous results kept alive until after the next step). distinct = (source, cells, vertices, "
        "operation sequence, schedule); non-trivial = at least one cell"
        ' Added after the seeded rounds: thinned rasters with a free closed ring, WKT polygons far from the origin; a builder that raises on a valid input is a violation.'
        ' Regular centre sets (exactly vertical ridges) in the tessellation family.')
MIN_DECISIVE = {"quick": 150, "thorough": 2000}
REQUIRED_COUNTERS = ["post:generate_mesh", "post:Frame", "post:SurfaceEvolver.create_lattice", "post:Skeleton.create_lattice",
                     "post:wkt.create_lattice", "post:tessellation.create_lattice"]
TECHNIQUE = "runtime contracts (O-MESH post-conditions on every construction/editing function) + destructor and print traps under GC schedules"
CASE_TIMEOUT = {"quick": 600, "thorough": 1800}
SHARD_TIMEOUT = {"quick": 1500, "thorough": 7200}
ASSUMPTIONS = ["fv/oracle/mesh.py states the property's consistency predicate"]
FIX = "/repo/tests/data"
CTX = {}


def anchors():
    from fv import env  # noqa
    from forsys import edge, cell, virtual_edges as ve, skeleton, surface_evolver as se, tessellation, wkt, vertex
    return [edge.SmallEdge.__post_init__, edge.SmallEdge.__del__, edge.SmallEdge.replace_vertex, cell.Cell.__post_init__,
            cell.Cell.__del__, cell.Cell.replace_vertex, ve.generate_mesh, ve.join_two_vertices, ve.get_unused_id,
            skeleton.Skeleton.create_lattice, skeleton.Skeleton.do_t3_transition, skeleton.Skeleton.get_artifacts,
            se.SurfaceEvolver.create_lattice, tessellation.create_lattice, wkt.create_lattice,
            vertex.Vertex.add_edge, vertex.Vertex.remove_edge, vertex.Vertex.add_cell, vertex.Vertex.remove_cell]


def cases(seed, tier):
    q = tier == "quick"
    out = []
    for i in range(60 if q else 900):
        out.append({"fam": "synth", "seed": [seed, 9, i], "count": 3})
    dumps = ["initial_furrow.dmp", "12_12/step_20.dmp"] if q else \
        ["initial_furrow.dmp", "last_furrow.dmp"] + [f"12_12/step_{i}.dmp" for i in range(20, 25)] + \
        [f"furrow_gauss_velocity/stage{i}.dmp" for i in range(8)]
    for j, f in enumerate(dumps):
        out.append({"fam": "se-fixture", "file": f, "seed": [seed, 9, 10 ** 5 + j]})
    for i in range(16 if q else 200):
        out.append({"fam": "se-gen", "seed": [seed, 9, 2 * 10 ** 5 + i]})
    for j, f in enumerate(["test_nonzero.tif", "experimental/exp_1.tif"]):
        for sched in range(1 if q else 3):
            out.append({"fam": "skeleton-fixture", "file": f, "seed": [seed, 9, 3 * 10 ** 5 + 10 * j + sched]})
    for i in range(16 if q else 120):
        out.append({"fam": "raster", "seed": [seed, 9, 4 * 10 ** 5 + i], "raw": bool(i % 2)})
    for i in range(12 if q else 150):
        out.append({"fam": "wkt", "seed": [seed, 9, 5 * 10 ** 5 + i]})
    for i in range(12 if q else 150):
        out.append({"fam": "tess", "seed": [seed, 9, 6 * 10 ** 5 + i]})
    if tier != "quick":
        out.append({"fam": "suite", "seed": [seed, 0, 0]})
    return out


_MON = None


def _install():
    global _MON
    if _MON is not None:
        return _MON
    from fv import contracts
    from fv.oracle import mesh as omesh
    from forsys import virtual_edges as ve, frames, skeleton, surface_evolver as se, tessellation, wkt
    mon = contracts.Monitor()
    inst = contracts.Installed()

    def judge(where, v, e, c):
        mon.count("post:" + where)
        bad = omesh.check_mesh(v, e, c)
        if bad:
            kinds = sorted({b["kind"] for b in bad})
            w = CTX.get("where") or {}
            lvl = w.get("chain") or 0
            known_chain = where == "generate_mesh" and (lvl == 3 or (lvl == 2 and set(kinds) <= {"cycle-edge"}))
            mon.fail("F-CONTRACT-CHAIN" if known_chain else "inconsistent-mesh:" + where, "mesh is internally consistent after " + where, kinds=kinds,
                     first=bad[:3], ctx=CTX.get("where"))

    def mesh_consistent_after_resampling(result):
        judge("generate_mesh", result[0], result[1], result[2])
        return True

    def mesh_consistent_after_frame(self):
        judge("Frame", self.vertices, self.edges, self.cells)
        return True

    def se_lattice_consistent(result):
        judge("SurfaceEvolver.create_lattice", *result)
        return True

    def skeleton_lattice_consistent(result):
        judge("Skeleton.create_lattice", *result)
        return True

    def wkt_lattice_consistent(result):
        judge("wkt.create_lattice", *result)
        return True

    def tess_lattice_consistent(result):
        judge("tessellation.create_lattice", *result)
        return True

    inst.ensure(ve, "generate_mesh", mesh_consistent_after_resampling)
    inst.ensure(frames.Frame, "__post_init__", mesh_consistent_after_frame)
    inst.ensure(se.SurfaceEvolver, "create_lattice", se_lattice_consistent)
    inst.ensure(skeleton.Skeleton, "create_lattice", skeleton_lattice_consistent)
    inst.ensure(wkt, "create_lattice", wkt_lattice_consistent)
    inst.ensure(tessellation, "create_lattice", tess_lattice_consistent)
    _MON = mon
    return mon


def _has_chain(v, e, c, ne):
    """3: a run of three or more two-point border interfaces or a closed ring of them (their contraction is undefined: known
    finding F-CONTRACT-CHAIN, any symptom); 2: only runs of two - the known symptom there is a cell outline with two consecutive
    vertices no longer joined by an edge (seen on raw rasters), nothing else is excused, in particular no exception; 0: none"""
    from fv.oracle import topo
    t = topo.Topo(v, e, c)
    if topo.contraction_chain(t, ne):
        return 3
    return 2 if topo.contraction_chain(t, ne, min_interfaces=2) else 0


def _sequence(rng, v, e, c, mon, hist, label, allow_contract=True):
    """random sequence of generate_mesh / Frame on a mesh, under a reference-holding schedule. returns op list"""
    from forsys import virtual_edges as ve, frames
    from forsys.exceptions import SegmentationArtifactException
    sched = int(rng.integers(3))
    ops = []
    held = []
    nops = int(rng.integers(1, 5))
    tainted = False
    for i in range(nops):
        op = "mesh" if (i == 0 or rng.random() < 0.6) else "frame"
        CTX["where"] = {"label": label, "ops": ops + [op], "sched": sched}
        if tainted:
            break
        if op == "mesh":
            ne = int(rng.integers(2, 13))
            rse = bool(rng.random() < 0.6) and allow_contract
            ops.append(["mesh", ne, rse])
            chain = rse and _has_chain(v, e, c, ne)
            CTX["where"]["chain"] = chain
            nfail = len(mon.fails)
            if sched == 1:
                gc.disable()
            try:
                out = ve.generate_mesh(v, e, c, ne=ne, replace_short_edges=rse)
            except Exception as exc:
                # the call mutated its inputs before failing: nothing more can be said about this mesh.
                hist["generate_mesh-raised-artifact"] = hist.get("generate_mesh-raised-artifact", 0) + 1
                ops[-1].append("raised")
                # runs of two: the known failure is an IndexError in the contraction bookkeeping, any other exception is new
                mon.fail("F-CONTRACT-CHAIN" if (chain == 3 or (chain == 2 and isinstance(exc, IndexError))) else "resample-raises",
                         "resampling yields a mesh", ne=ne, rse=rse,
                         chain=chain, label=label, exc=repr(exc)[:160])
                return ops, sched, 0, 0
            finally:
                if sched == 1:
                    gc.enable()
                    gc.collect()
            if sched == 2:
                held.append(out)
                if len(held) > 1:
                    held.pop(0)
                    gc.collect()
            v, e, c = out[0], out[1], out[2]
            if len(mon.fails) > nfail:
                tainted = True          # an inconsistent mesh was reported: later steps say nothing new
        else:
            ops.append(["frame"])
            try:
                fr = frames.Frame(0, v, e, c)
            except Exception as exc:
                mon.fail("frame-raises", "the mesh supports frame construction", exc=repr(exc)[:200], ops=str(ops), label=label)
                tainted = True
                break
            if sched == 2:
                held.append(fr)
        if not c:
            break
    # a frame must always be constructible at the end
    CTX["where"] = {"label": label, "ops": ops + ["final-frame"], "sched": sched}
    if c and not tainted:
        try:
            frames.Frame(0, v, e, c)
        except Exception as exc:
            mon.fail("frame-raises", "the mesh supports frame construction", exc=repr(exc)[:200], ops=str(ops), label=label)
    del held
    gc.collect()
    return ops, sched, len(c), len(v)



def _suite_case(prop_id):
    """the repository's own test-suite as an extra workload, run under this property's monitors (shipped fixtures)"""
    from fv import suite
    data, tail = suite.run(prop_id)
    if data is None or data.get("exitstatus") not in (0, 1):
        return {"status": "inconclusive", "reason": "suite-did-not-run", "trace": tail}
    counters = {"suite:" + k: v for k, v in data["evals"].items()}
    counters["suite:runs"] = 1
    fails = list(data["fails"])
    if data.get("unraisable"):
        fails.append({"mech": "unraisable", "clause": "no destructor raises", "detail": {"events": data["unraisable"]}})
    if data.get("monitor_errors"):
        return {"status": "inconclusive", "reason": "monitor-error", "trace": data["monitor_errors"][-1], "counters": counters}
    if fails:
        return {"status": "violated", "findings": fails, "counters": counters, "sigs": [["suite"]]}
    if not data["evals"]:
        return {"status": "inconclusive", "reason": "suite-reached-no-monitor", "counters": counters}
    return {"status": "held", "sigs": [["suite", sum(data["evals"].values())]], "sig": ["suite"], "counters": counters,
            "observed": {"monitor_evaluations_in_suite": data["evals"]}}


def run_case(case):
    if case.get("fam") == "suite":
        return _suite_case(ID)
    from fv import env
    from fv.gen import scen, realise, tissue
    mon = _install()
    mon.reset()
    rng = np.random.default_rng(case["seed"])
    sigs, hist = [], {}
    fam = case["fam"]
    tmpdir = None
    import atexit
    import shutil as _sh
    with env.Capture() as cap:
        try:
            if fam == "synth":
                for _ in range(case["count"]):
                    # lattices bring four-fold junctions, T-junctions and three-cell junctions lying on the outline
                    at = scen.base_tissue(rng, ["vor", "arc", "mob", "vor", "arc", "mob", "lat-square", "lat-brick", "lat-hex"][int(rng.integers(9))],
                                          ncells=int(rng.integers(8, 50)))
                    if rng.random() < 0.6:
                        at = at.sub(tissue.random_connected_subset(rng, at, int(rng.integers(1, len(at.cells) + 1))))
                    if rng.random() < 0.3 and len(at.cells) > 8:
                        ids = sorted(at.cells)
                        drop = set(int(x) for x in rng.choice(ids, size=max(1, len(ids) // 8), replace=False))
                        at = at.sub(max(at.components([x for x in ids if x not in drop]), key=len))
                    if rng.random() < 0.3:
                        at = at.similarity(shift=complex(*rng.uniform(-30, 10, 2)))      # negative coordinates
                    r = realise.realise(at, k=(0, 20) if rng.random() < 0.7 else int(rng.integers(0, 4)), rng=rng,
                                        relabel=bool(rng.integers(2)), shifts=True, flips="random", edge_dirs=True)
                    ops, sched, nc, nv = _sequence(rng, r.vertices, r.edges, r.cells, mon, hist, "synth")
                    sigs.append(["synth", len(at.cells), nv, str(ops), sched])
            elif fam == "se-fixture":
                from forsys import surface_evolver as se
                lat = se.SurfaceEvolver(os.path.join(FIX, case["file"]))
                ops, sched, nc, nv = _sequence(rng, lat.vertices, lat.edges, lat.cells, mon, hist, case["file"])
                sigs.append(["se-fixture", case["file"], nv, str(ops), sched])
            elif fam == "se-gen":
                from forsys import surface_evolver as se
                from fv.gen import se as gse
                at = scen.base_tissue(rng, ["vor", "arc"][int(rng.integers(2))], ncells=int(rng.integers(6, 25)))
                if rng.random() < 0.5:
                    at = at.sub(tissue.random_connected_subset(rng, at, int(rng.integers(1, len(at.cells) + 1))))
                rec = gse.records_from_tissue(rng, at, k=(0, 5), orphans=int(rng.integers(0, 4)))
                tmpdir = tempfile.mkdtemp(prefix="fv-c09-")
                atexit.register(_sh.rmtree, tmpdir, True)
                path = os.path.join(tmpdir, "t.dmp")
                gse.write_dump(path, rec["V"], rec["Ed"], rec["F"], rec["B"], wrap=int(rng.integers(3, 14)))
                lat = se.SurfaceEvolver(path)
                ops, sched, nc, nv = _sequence(rng, lat.vertices, lat.edges, lat.cells, mon, hist, "se-gen")
                sigs.append(["se-gen", len(at.cells), nv, str(ops), sched])
            elif fam == "skeleton-fixture":
                from forsys import skeleton
                sk = skeleton.Skeleton(os.path.join(FIX, case["file"]), mirror_y=bool(rng.integers(2)))
                ra_ = case["seed"][2] % 4 == 1
                hist["reduce-amount-option"] = int(ra_)
                v, e, c = sk.create_lattice(reduce_amount=True) if ra_ else sk.create_lattice()
                ops, sched, nc, nv = _sequence(rng, v, e, c, mon, hist, case["file"])
                sigs.append(["skeleton-fixture", case["file"], nv, str(ops), sched])
            elif fam == "raster":
                from forsys import skeleton
                from fv.gen import raster
                tmpdir = tempfile.mkdtemp(prefix="fv-c09-")
                atexit.register(_sh.rmtree, tmpdir, True)
                # debris: a free closed ring that shares nothing with the tissue (thinned images only: the corners of an
                # un-thinned ring are neither minimal nor junction artefacts, i.e. not a skeleton the parser is specified for)
                # With debris in the image the tissue outline is no longer the first contour; the parser then relies on its
                # area filter (> 5 mean cell areas) to discard the outline, which needs a tissue of a dozen cells or more.
                nc_ = int(rng.integers(4, 30))
                ring = (not case["raw"]) and (case["seed"][2] // 2) % 2 == 1 and nc_ >= 12
                img, info = raster.voronoi_image(rng, ncells=nc_, clean=not case["raw"], ring=ring)
                hist["raster-with-free-ring"] = hist.get("raster-with-free-ring", 0) + int(ring)
                path = os.path.join(tmpdir, "t.tif")
                raster.save(img, path)
                sk = skeleton.Skeleton(path, mirror_y=bool(rng.integers(2)))
                ra_ = case["seed"][2] % 4 == 1
                hist["reduce-amount-option"] = int(ra_)
                v, e, c = sk.create_lattice(reduce_amount=True) if ra_ else sk.create_lattice()
                ops, sched, nc, nv = _sequence(rng, v, e, c, mon, hist, "raster")
                sigs.append(["raster", "raw" if case["raw"] else "clean", len(c), nv, str(ops), sched])
            elif fam == "wkt":
                from forsys import wkt
                at = scen.base_tissue(rng, ["vor", "arc"][int(rng.integers(2))], ncells=int(rng.integers(6, 30)))
                if rng.random() < 0.5:
                    at = at.sub(tissue.random_connected_subset(rng, at, int(rng.integers(1, len(at.cells) + 1))))
                if case["seed"][2] % 3 == 1:
                    # stage coordinates: the polygons lie far from the origin compared with the spacing of their points
                    at = at.similarity(shift=complex(float(10 ** rng.uniform(4, 6)), float(10 ** rng.uniform(4, 6))))
                    hist["wkt-far-from-origin"] = 1
                r = realise.realise(at, k=(0, 5), rng=rng)
                rows = []
                for cid, cc in r.cells.items():
                    pts = [(vv.x, vv.y) for vv in cc.vertices]
                    pts.append(pts[0])
                    rows.append("POLYGON ((" + ", ".join(f"{repr(float(x))} {repr(float(y))}" for x, y in pts) + "))")
                v, e, c = wkt.create_lattice(rows)
                ops, sched, nc, nv = _sequence(rng, v, e, c, mon, hist, "wkt")
                sigs.append(["wkt", len(at.cells), nv, str(ops), sched])
            elif fam == "tess":
                from forsys import tessellation
                n = int(rng.integers(8, 60))
                pts = rng.uniform(0, 30, (n, 2))
                if case["seed"][2] % 3 == 0:
                    # regular centre sets: exactly vertical / horizontal ridges
                    m_, k_ = int(rng.integers(3, 9)), int(rng.integers(3, 9))
                    a_ = float(rng.choice([1.0, 2.0, 5.0]))
                    if case["seed"][2] % 2:
                        pts = np.array([(i * a_, j * a_) for i in range(m_) for j in range(k_)], float)
                    else:
                        pts = np.array([((i + 0.5 * (j % 2)) * a_, j * a_ * np.sqrt(3) / 2) for i in range(m_) for j in range(k_)], float)
                    hist["tess-regular-centres"] = 1
                centres = [tuple(float(x_) for x_ in p) for p in pts]
                if rng.random() < 0.5:
                    centres = centres + tessellation.add_voronoi_centers(centres)
                import scipy.spatial as _sp
                _vor = _sp.Voronoi(centres)
                if any(a_ >= 0 and b_ >= 0 and tuple(np.round(_vor.vertices[a_], 3)) == tuple(np.round(_vor.vertices[b_], 3))
                       for a_, b_ in _vor.ridge_vertices):
                    # a ridge shorter than the three-decimal rounding of the corners collapses to one point: outside the domain
                    # of the tessellation builder (C19 counts these as undecidable too)
                    return {"status": "inconclusive", "reason": "rounded-corners-coincide", "hist": {"tess-rounded-corners-coincide": 1},
                            "counters": dict(mon.evals)}
                try:
                    elems = tessellation.create_lattice_elements(centres, max_distance=float(rng.uniform(15, 80)))
                except FloatingPointError:
                    hist["tess-vertical-ridge"] = 1       # C19's subject (division by a zero x-extent)
                    elems = None
                if elems is not None and len(elems[2]) > 0:
                    v, e, c = tessellation.create_lattice(*elems)
                    ops, sched, nc, nv = _sequence(rng, v, e, c, mon, hist, "tess")
                    sigs.append(["tess", len(c), nv, str(ops), sched])
        except Exception as exc:
            # a parser / builder of the package that raises on a valid input yields no mesh at all; an error raised by the
            # harness itself is not the package's (the case then counts as inconclusive)
            import traceback
            frames_ = traceback.extract_tb(exc.__traceback__)
            if frames_ and "/forsys/" in frames_[-1].filename.replace("\\", "/") and "/fv/" not in frames_[-1].filename:
                mon.fail("construction-raises", "every construction path yields a mesh", exc=repr(exc)[:200], fam=fam,
                         where=f"{frames_[-1].filename.rsplit('/', 1)[-1]}:{frames_[-1].name}",
                         tb=traceback.format_exc()[-500:])
            else:
                raise
    if tmpdir:
        import shutil
        shutil.rmtree(tmpdir, ignore_errors=True)
    if cap.unraisable:
        mon.fail("unraisable", "no destructor raises (errors there are swallowed by the interpreter)",
                 events=cap.unraisable[:3])
    for pat in ("BAD VERTEX DELETION", "not in list of vertices"):
        if cap.diag.get(pat):
            mon.fail("diagnostic:" + pat.split()[0].lower(), "the package reports an internal inconsistency on stdout",
                     pattern=pat, count=cap.diag[pat])
    for pat, nn in cap.diag.items():
        hist["print:" + pat[:24]] = nn
    hist["fam:" + fam] = 1
    res = {"counters": dict(mon.evals), "hist": hist}
    if mon.fails:
        res.update(status="violated", findings=mon.fails)
        return res
    if not sigs:
        res.update(status="inconclusive", reason="nothing-built")
        return res
    res.update(status="held", sigs=sigs, sig=sigs[0], observed={"sequences": len(sigs)})
    return res
