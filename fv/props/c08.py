"""C08 Interfaces partition the mesh edges; internal/external classification is exact.

Monitor: post-condition on the real Frame.__post_init__ (icontract) comparing the frame's decomposition and every
copy of its classification with O-TOPO, an independent decomposition computed from the three dictionaries only."""
import os
import numpy as np

ID = "C08"
RULE = ("frames built from: ALL ridge-connected cell subsets of small Voronoi/arc tissues (exhaustive per base tissue), "
        "random connected subsets of large ones (ragged borders, holes, bridges, single cells), 0..15 interior points per "
        "interface, random labels/orientations; shipped Surface Evolver dumps; meshes after generate_mesh; distinct = "
        "(cells, interfaces, internal interfaces, junctions, has-hole, points multiset); non-trivial = at least one interface"
        ' Added after the seeded rounds: lattices (square, brick, hex, tri, fan, diamond, rosette), lens-shaped cells with two junctions.'
        ' Two-point lens sides, pendant cells.')
MIN_DECISIVE = {"quick": 300, "thorough": 3000}
REQUIRED_COUNTERS = ["post:Frame", "clause:paths", "clause:internal", "clause:own_cells", "clause:lookup"]
TECHNIQUE = "runtime contract (icontract post-condition on Frame.__post_init__) against an independent topological oracle"
CASE_TIMEOUT = {"quick": 300, "thorough": 900}
ASSUMPTIONS = ["O-TOPO (fv/oracle/topo.py) is a correct reading of the property's definition of interface / internal"]
FIX = "/repo/tests/data"


def anchors():
    from fv import env  # noqa
    from forsys import frames, virtual_edges as ve, edge
    return [frames.Frame.__post_init__, ve.create_edges_new, ve.get_partition, ve.get_border_edge,
            edge.BigEdge.__post_init__, frames.Frame.get_tensions, frames.Frame.get_external_edges_ids,
            frames.Frame.get_big_edge_by_cells]


def cases(seed, tier):
    q = tier == "quick"
    out = [{"fam": "exh", "seed": [seed, 8, i], "size": 7 + i % 4} for i in range(10 if q else 60)]
    out += [{"fam": "rand", "seed": [seed, 8, 1000 + i], "count": 8} for i in range(40 if q else 400)]
    out += [{"fam": "resampled", "seed": [seed, 8, 5000 + i], "count": 4} for i in range(16 if q else 160)]
    out += [{"fam": "lattice", "seed": [seed, 8, 9000 + i], "count": 6} for i in range(8 if q else 80)]
    dumps = ["initial_furrow.dmp", "last_furrow.dmp", "12_12/step_20.dmp", "furrow_gauss_velocity/stage3.dmp"] if q else None
    out += [{"fam": "fixture", "file": f} for f in _fixtures(dumps)]
    if tier != "quick":
        out.append({"fam": "suite", "seed": [seed, 0, 0]})
    return out


def _fixtures(only=None):
    res = []
    for root, _, files in os.walk(FIX):
        for f in sorted(files):
            if f.endswith(".dmp"):
                rel = os.path.relpath(os.path.join(root, f), FIX)
                if only is None or rel in only:
                    res.append(rel)
    return sorted(res)


_MON = None


def _install():
    global _MON
    if _MON is not None:
        return _MON
    from fv import contracts
    from fv.oracle import topo
    from forsys import frames
    mon = contracts.Monitor()
    inst = contracts.Installed()

    def decomposition_is_exact(self):
        mon.count("post:Frame")
        mon.last = None
        t = topo.Topo(self.vertices, self.edges, self.cells)
        ref_paths = sorted(topo.canon(vp) for vp, ep in t.paths)
        got_paths = sorted(topo.canon(p) for p in self.big_edges_list)
        mon.count("clause:paths", len(got_paths))
        if got_paths != ref_paths:
            miss = [p for p in ref_paths if p not in got_paths][:3]
            extra = [p for p in got_paths if p not in ref_paths][:3]
            mon.fail("paths", "interfaces = maximal junction-to-junction paths", missing=miss, extra=extra,
                     n_got=len(got_paths), n_ref=len(ref_paths))
        if len(set(got_paths)) != len(got_paths) and len(set(ref_paths)) == len(ref_paths):
            mon.fail("duplicate-interface", "no interface listed twice in either direction")
        # partition of the mesh edges of cells that have a junction
        ref_edges = sorted(e for vp, ep in t.paths for e in ep)
        got_edges = sorted(e for b in self.big_edges.values() for e in b.edges)
        if got_edges != ref_edges:
            mon.fail("edge-partition", "every mesh edge of a cell with a junction lies in exactly one interface",
                     n_got=len(got_edges), n_ref=len(ref_edges),
                     dup=len(got_edges) - len(set(got_edges)))
        if [b.big_edge_id for b in self.big_edges.values()] != list(range(len(self.big_edges_list))):
            mon.fail("big-edge-ids", "interface objects are numbered by list position")
        for i, p in enumerate(self.big_edges_list):
            if [v.id for v in self.big_edges[i].vertices] != list(p):
                mon.fail("big-edge-vertices", "i-th interface object holds the i-th path", i=i)
                break
        # classification, every copy
        ref_int = {topo.canon(vp) for vp, ep in t.paths if t.is_internal(vp)}
        # The property's two clauses ("internal iff the vertex predicate holds" and "internal interfaces separate exactly two
        # cells") contradict each other for a two-point interface between junctions of degree >= 4 that lies on a hole / on the
        # outline (square lattices): the vertex predicate holds but only one cell is adjacent.  Such interfaces are outside the
        # decisive domain of both clauses; they are counted, not judged.
        amb = {topo.canon(vp) for vp, ep in t.paths if t.is_internal(vp) and len(t.cells_of_path(vp)) != 2}
        if amb:
            mon.count("ambiguous-one-cell-interface", len(amb))
        mon.count("clause:internal", len(ref_int))
        a = [topo.canon(b.get_vertices_ids()) for b in self.internal_big_edges]
        bb = [topo.canon(p) for p in self.internal_big_edges_vertices]
        c = [topo.canon(b.get_vertices_ids()) for b in self.big_edges.values() if not b.external]
        ext_ids = set(self.get_external_edges_ids())
        d = [topo.canon(b.get_vertices_ids()) for i, b in self.big_edges.items() if i not in ext_ids]
        copies = {"internal_big_edges": a, "internal_big_edges_vertices": bb, "not external": c,
                  "complement of get_external_edges_ids": d}
        if len(self.big_edges) > 0 or os.environ.get("FV_EMPTY_TABLE", "1") == "1":
            try:
                df = self.get_tensions()
                e = [topo.canon(self.big_edges[int(i)].get_vertices_ids()) for i in df["id"]]
                copies["get_tensions"] = e
                dfb = self.get_tensions(with_border=True)
                if [int(i) for i in dfb["id"]] != list(range(len(self.big_edges_list))):
                    mon.fail("table-with-border", "table with border lists every interface in order")
            except Exception as exc:
                mon.fail("F-EMPTY-TABLE" if len(self.big_edges) == 0 else "get_tensions-raises",
                         "tension table can be produced", exc=repr(exc)[:200], n_interfaces=len(self.big_edges))
        for name, lst in copies.items():
            if not (ref_int - amb <= set(lst) <= ref_int) or len(lst) != len(set(lst)):
                mon.fail("classification", f"{name} = internal interfaces (every vertex in >=2 cells, one end in >=3)",
                         copy=name, n_got=len(lst), n_ref=len(ref_int),
                         wrong=[p for p in set(lst) ^ ref_int][:3])
        if a != bb:
            mon.fail("classification-order", "object list and vertex-list copy are in the same order")
        # external_edges_id = interfaces with a vertex in fewer than two cells
        ref_ext1 = {i for i, p in enumerate(self.big_edges_list) if any(len(t.vcells[v]) < 2 for v in p)}
        if set(self.external_edges_id) != ref_ext1:
            mon.fail("external-ids", "external_edges_id = interfaces touching a vertex of fewer than two cells")
        # internal interfaces separate exactly two cells
        for b in self.internal_big_edges:
            if topo.canon(b.get_vertices_ids()) in amb:
                continue
            mon.count("clause:own_cells")
            ref_c = t.cells_of_path(tuple(b.get_vertices_ids()))
            if len(b.own_cells) != 2 or set(b.own_cells) != ref_c:
                mon.fail("own-cells", "an internal interface separates exactly the two cells on its sides",
                         path=b.get_vertices_ids()[:6], got=list(b.own_cells), ref=sorted(ref_c))
        # look-up by the two cells
        for b in self.internal_big_edges:
            if len(b.vertices) > 2 and len(b.own_cells) == 2:
                mon.count("clause:lookup")
                try:
                    got = self.get_big_edge_by_cells(b.own_cells[0], b.own_cells[1])
                    got2 = self.get_big_edge_by_cells(b.own_cells[1], b.own_cells[0])
                except Exception as exc:
                    mon.fail("lookup-raises", "lookup by the two cells", exc=repr(exc)[:200])
                    continue
                # two cells can share several interfaces (holes / bridges): then any shared one is acceptable
                shared = [x for x in self.internal_big_edges if set(x.own_cells) == set(b.own_cells) and len(x.vertices) > 2]
                if len(shared) == 1 and (got is not b or got2 is not b):
                    mon.fail("lookup", "lookup by its two cells returns the interface", path=b.get_vertices_ids()[:6])
        # the look-up is by the two cells, not by the classification: an interface with an interior point that separates two
        # cells but runs from outline to outline (bridges, two-cell tissues) is found as well
        int_ids = {id(x) for x in self.internal_big_edges}
        for b in self.big_edges.values():
            if id(b) in int_ids or len(b.vertices) <= 2:
                continue
            cs = t.cells_of_path(tuple(b.get_vertices_ids()))
            if len(cs) != 2:
                continue
            c1_, c2_ = sorted(cs)
            shared_ = [x for x in self.big_edges.values() if len(x.vertices) > 2
                       and t.cells_of_path(tuple(x.get_vertices_ids())) == cs]
            if len(shared_) != 1:
                continue
            mon.count("clause:lookup-external")
            try:
                if self.get_big_edge_by_cells(c1_, c2_) is not b or self.get_big_edge_by_cells(c2_, c1_) is not b:
                    mon.fail("lookup", "lookup by its two cells returns the interface", path=b.get_vertices_ids()[:6], external=True)
            except Exception as exc:
                mon.fail("lookup-raises", "lookup by the two cells", exc=repr(exc)[:200], external=True)
        holes = 0
        mon.last = {"cells": len(self.cells), "paths": len(ref_paths), "internal": len(ref_int),
                    "junctions": len(t.junctions),
                    "lens": sorted({len(p) for p in ref_paths})}
        return True

    inst.ensure(frames.Frame, "__post_init__", decomposition_is_exact)
    _MON = mon
    return mon


def _build_frame(r):
    from forsys import frames
    try:
        return frames.Frame(0, r.vertices, r.edges, r.cells)
    except Exception as exc:
        import traceback
        _MON.last = None
        _MON.fail("frame-raises", "a frame can be built from a consistent mesh", exc=repr(exc)[:160],
                  tb=traceback.format_exc()[-400:])
        return None


def _sig(mon):
    l = mon.last
    return [l["cells"], l["paths"], l["internal"], l["junctions"], l["lens"]] if l and l["paths"] > 0 else None



def _suite_case(prop_id):
    """the repository's own test-suite as an extra workload, run under this property's monitors (shipped fixtures)"""
    from fv import suite
    data, tail = suite.run(prop_id)
    if data is None or data.get("exitstatus") not in (0, 1):
        return {"status": "inconclusive", "reason": "suite-did-not-run", "trace": tail}
    counters = {"suite:" + k: v for k, v in data["evals"].items()}
    counters["suite:runs"] = 1
    fails = list(data["fails"])
    if data.get("unraisable"):
        fails.append({"mech": "unraisable", "clause": "no destructor raises", "detail": {"events": data["unraisable"]}})
    if data.get("monitor_errors"):
        return {"status": "inconclusive", "reason": "monitor-error", "trace": data["monitor_errors"][-1], "counters": counters}
    if fails:
        return {"status": "violated", "findings": fails, "counters": counters, "sigs": [["suite"]]}
    if not data["evals"]:
        return {"status": "inconclusive", "reason": "suite-reached-no-monitor", "counters": counters}
    return {"status": "held", "sigs": [["suite", sum(data["evals"].values())]], "sig": ["suite"], "counters": counters,
            "observed": {"monitor_evaluations_in_suite": data["evals"]}}


def run_case(case):
    if case.get("fam") == "suite":
        return _suite_case(ID)
    from fv import env
    from fv.gen import tissue, realise
    mon = _install()
    mon.reset()
    mon.last = None
    sigs = []
    nframes = 0
    diag = {}
    with env.Capture() as cap:
        if case["fam"] == "exh":
            rng = np.random.default_rng(case["seed"])
            at = tissue.voronoi(rng, n=int(rng.integers(14, 30)), kind=["uniform", "hex", "disc"][int(rng.integers(3))])
            if len(at.cells) > case["size"]:
                at = at.sub(tissue.random_connected_subset(rng, at, case["size"]))
            if rng.random() < 0.5:
                at = tissue.bulge(rng, at, 0.3)
            subsets = tissue.connected_subsets(at)
            for sub in subsets:
                st = at.sub(sub)
                r = realise.realise(st, k=(0, 4), rng=rng, relabel=bool(rng.integers(2)), shifts=True, flips="random",
                                    edge_dirs=True, cell_order=True)
                _build_frame(r)
                nframes += 1
                s = _sig(mon)
                if s:
                    sigs.append(s)
            diag["exhaustive_subsets"] = len(subsets)
        elif case["fam"] == "rand":
            rng = np.random.default_rng(case["seed"])
            for _ in range(case["count"]):
                at = tissue.voronoi(rng, n=int(rng.integers(12, 120)), kind=["uniform", "hex", "disc"][int(rng.integers(3))])
                if rng.random() < 0.7:
                    at = at.sub(tissue.random_connected_subset(rng, at, int(rng.integers(1, len(at.cells) + 1))))
                if rng.random() < 0.3 and len(at.cells) > 8:
                    # punch holes: remove interior cells
                    ids = sorted(at.cells)
                    drop = set(int(x) for x in rng.choice(ids, size=max(1, len(ids) // 8), replace=False))
                    keep = [c for c in ids if c not in drop]
                    comp = max(at.components(keep), key=len)
                    at = at.sub(comp)
                m = int(rng.integers(3))
                if m == 1:
                    at = tissue.random_mobius(rng, at)
                elif m == 2:
                    at = tissue.bulge(rng, at, 0.3)
                elif len(at.cells) > 2 and np.random.default_rng([len(at.J), len(at.cells)]).random() < 0.4:
                    # a lens-shaped cell with exactly two junctions sitting on an interface (both ends of that interface
                    # then belong to the same three cells); decided without touching the case's random stream
                    lens = tissue.with_lens(np.random.default_rng([len(at.J), 8]), at)
                    if lens is not None:
                        at = lens
                        mon.count("tissue:with-lens")
                        lens2 = tissue.with_lens(np.random.default_rng([len(at.J), 11]), at)
                        if lens2 is not None and len(at.J) % 2 == 0 and frozenset(lens2.meta["lens"][0]) != frozenset(at.meta["lens"][0]):
                            # a second lens on another interface of the same tissue
                            first_ = at.meta["lens"]
                            at = lens2
                            at.meta["lens2"] = first_
                            mon.count("tissue:with-two-lenses")
                kspec = (0, 15) if rng.random() < 0.5 else int(rng.integers(0, 16))
                if at.meta.get("lens") and np.random.default_rng([len(at.J), 9]).random() < 0.6:
                    # the lens side as a TWO-POINT interface (its two ends then share three cells)
                    lo, hi = kspec if isinstance(kspec, tuple) else (kspec, kspec)
                    kr = np.random.default_rng([len(at.J), len(at.E), 3])
                    kspec = {k_: int(kr.integers(lo, hi + 1)) for k_ in at.E}
                    kspec[frozenset(at.meta["lens"][0])] = 0
                    if at.meta.get("lens2"):
                        kspec[frozenset(at.meta["lens2"][0])] = 0
                r = realise.realise(at, k=kspec, rng=rng,
                                    relabel=bool(rng.integers(2)), shifts=True, flips="random", edge_dirs=True,
                                    cell_order=bool(rng.integers(2)), spacing="random" if rng.random() < 0.5 else "uniform")
                _build_frame(r)
                nframes += 1
                s = _sig(mon)
                if s:
                    sigs.append(s)
        elif case["fam"] == "lattice":
            # square / brick / hexagonal lattices: four-fold junctions, T-junctions, cells touching at a corner
            from fv.gen import scen
            rng = np.random.default_rng(case["seed"])
            for _ in range(case["count"]):
                at = scen.base_tissue(rng, ["lat-square", "lat-brick", "lat-hex", "lat-square", "lat-tri", "lat-fan", "lat-diamond", "lat-rosette"][int(rng.integers(8))])
                pend = None
                if at.meta.get("kind") in ("lat-square", "lat-hex", "lat-diamond") and len(at.cells) > 3 and \
                        np.random.default_rng([len(at.J), case["seed"][2], 4]).random() < 0.35:
                    # a cell hanging on the rest by ONE vertex (its outline is one closed interface through one junction)
                    pr = np.random.default_rng([len(at.cells), case["seed"][2], 6])
                    pend = tissue.pendant_subset(pr, at, int(pr.integers(1, max(2, len(at.cells) - 2))))
                if pend is not None:
                    at = at.sub(pend)
                    mon.count("tissue:pendant-cell")
                elif rng.random() < 0.6:
                    at = at.sub(tissue.random_connected_subset(rng, at, int(rng.integers(1, len(at.cells) + 1))))
                if pend is None and rng.random() < 0.3 and len(at.cells) > 6:
                    ids = sorted(at.cells)
                    drop = set(int(x) for x in rng.choice(ids, size=max(1, len(ids) // 6), replace=False))
                    at = at.sub(max(at.components([c for c in ids if c not in drop]), key=len))
                r = realise.realise(at, k=int(rng.integers(0, 5)) if rng.random() < 0.5 else (0, 4), rng=rng,
                                    relabel=bool(rng.integers(2)), shifts=True, flips="random", edge_dirs=True,
                                    cell_order=bool(rng.integers(2)))
                _build_frame(r)
                nframes += 1
                s = _sig(mon)
                if s:
                    sigs.append(s + ["lattice"])
        elif case["fam"] == "resampled":
            from forsys import virtual_edges as ve
            rng = np.random.default_rng(case["seed"])
            for _ in range(case["count"]):
                at = tissue.voronoi(rng, n=int(rng.integers(12, 60)), kind=["uniform", "hex"][int(rng.integers(2))])
                if rng.random() < 0.5:
                    at = at.sub(tissue.random_connected_subset(rng, at, int(rng.integers(2, len(at.cells) + 1))))
                at = tissue.bulge(rng, at, 0.3)
                r = realise.realise(at, k=(1, 20), rng=rng, relabel=False, shifts=True, flips="random")
                ne = int(rng.integers(2, 13))
                try:
                    v, e, c, _ = ve.generate_mesh(r.vertices, r.edges, r.cells, ne=ne, replace_short_edges=False)
                except Exception:
                    mon.count("resample-raised")
                    continue
                from forsys import frames
                frames.Frame(0, v, e, c)
                nframes += 1
                s = _sig(mon)
                if s:
                    sigs.append(s + ["ne", ne])
        elif case["fam"] == "fixture":
            from forsys import surface_evolver as se, frames
            lat = se.SurfaceEvolver(os.path.join(FIX, case["file"]))
            frames.Frame(0, lat.vertices, lat.edges, lat.cells, gt=True)
            nframes += 1
            s = _sig(mon)
            if s:
                sigs.append(s + [case["file"]])
    res = {"counters": dict(mon.evals), "hist": {"frames": nframes, **{f"fam:{case['fam']}": nframes}}}
    if cap.unraisable:
        mon.fail("unraisable", "no swallowed destructor error", events=cap.unraisable[:3])
    if mon.fails:
        res.update(status="violated", findings=mon.fails)
        return res
    if not sigs:
        res.update(status="inconclusive", reason="no-interface")
        return res
    res.update(status="held", sigs=sigs, sig=sigs[0], observed={"frames": nframes, **diag})
    return res
