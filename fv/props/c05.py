"""C05 Reported tensions are the non-negative least-squares optimum with mean one.

Monitor: post-condition on the real ForceMatrix.solve (icontract, with a snapshot of the assembled matrix taken before
the call).  The monitor rebuilds the expected augmented system itself from the matrix and the right-hand side it observes,
compares it with what the FORSYS_VERIF hook recorded, and decides optimality of the *reported* tensions with a KKT
certificate (no sampling of competing candidates)."""
import os
import numpy as np

ID = "C05"
RULE = ("noisy / non-equilibrium / ill-scaled arc tissues (vertex noise 1e-4..0.2 of the spacing, scales 1e-3..1e3), "
        "equilibrium tissues (consistent systems), sub-tissues searched for SQUARE augmented systems (2*junctions = "
        "interfaces, so the inversion path runs), two-frame series with random displacements (velocity right-hand side), "
        "shipped furrow fixtures (static and velocity); x method {default, lsq, lsq_linear (consistent only), fix_stress} x "
        "allow_negatives on/off. distinct = (family, equations, unknowns, method, allow_negatives, path, rhs mode); "
        "non-trivial = at least one junction equation"
        ' Added after the seeded rounds: angle-limited builds; the same assembled system solved again with another back-end.')
MIN_DECISIVE = {"quick": 150, "thorough": 2500}
REQUIRED_COUNTERS = ["post:solve", "kkt:checked", "hook:compared"]
REQUIRED_HIST = {"any": ["path:inv", "path:inv->nnls-fallback", "path:lsq", "path:lsq_linear", "rhs:velocity", "rhs:static"]}
TECHNIQUE = ("runtime contract on ForceMatrix.solve + FORSYS_VERIF hook record; KKT certificate of the reported tensions on "
             "the independently rebuilt augmented system; reference NNLS for uniqueness")
CASE_TIMEOUT = {"quick": 400, "thorough": 1500}
ASSUMPTIONS = ["KKT conditions characterise the optimum of a convex non-negative least-squares problem",
               "tau = 1e-7 (relative) for inv / nnls / lsq_linear, objective gap 1e-6 relative for the Levenberg-Marquardt back-end"]
FIX = "/repo/tests/data"
CTX = {}


def anchors():
    from fv import env  # noqa
    from forsys import fmatrix
    F = fmatrix.ForceMatrix
    return [F.solve, F.add_mean_one, F.add_mean_one_before, F.fix_one_stress, F.set_velocity_matrix,
            F.get_solution_no_discarded, F.get_new_initial_condition]


def cases(seed, tier):
    q = tier == "quick"
    out = []
    for i in range(40 if q else 600):
        out.append({"fam": "noisy", "seed": [seed, 5, i], "count": 2})
    for i in range(24 if q else 400):
        out.append({"fam": "square", "seed": [seed, 5, 10 ** 5 + i], "count": 3})
    for i in range(16 if q else 240):
        out.append({"fam": "equil", "seed": [seed, 5, 2 * 10 ** 5 + i], "count": 2})
    for i in range(16 if q else 240):
        out.append({"fam": "velocity", "seed": [seed, 5, 3 * 10 ** 5 + i], "count": 2})
    out.append({"fam": "fixture", "files": ["initial_furrow.dmp"], "seed": [seed, 5, 7]})
    out.append({"fam": "fixture", "files": ["furrow_gauss_velocity/stage0.dmp", "furrow_gauss_velocity/stage1.dmp",
                                            "furrow_gauss_velocity/stage2.dmp"], "seed": [seed, 5, 8]})
    if not q:
        out.append({"fam": "fixture", "files": ["last_furrow.dmp"], "seed": [seed, 5, 9]})
        out.append({"fam": "fixture", "files": [f"12_12/step_{i}.dmp" for i in (20, 21, 22)], "seed": [seed, 5, 10]})
    if tier != "quick":
        out.append({"fam": "suite", "seed": [seed, 0, 0]})
    return out


_MON = None


def _install():
    global _MON
    if _MON is not None:
        return _MON
    from fv import contracts
    from fv.oracle import fb
    from forsys import fmatrix
    mon = contracts.Monitor()
    inst = contracts.Installed()

    def matrix_before(self):
        return np.array(self.matrix, dtype=float).copy()

    def reported_is_nnls_optimum(self, timeseries, result, OLD, _KWARGS):
        # note: icontract passes keyword arguments of **kwargs through _KWARGS
        c = CTX.get("cur")
        if c is None:
            return True
        kwargs = dict(_KWARGS)
        kwargs.pop("timeseries", None)
        mon.count("post:solve")
        method = kwargs.get("method", None)
        allow_neg = kwargs.get("allow_negatives", True)
        A = OLD.matrix
        m, n = A.shape
        if m == 0 or n == 0:
            c["skip"] = "empty-system"
            return True
        rec = getattr(self, "_verif", None)
        if rec is None:
            mon.fail("hook-missing", "FORSYS_VERIF hook record present")
            return True
        c["path"] = rec["path"]
        c["shape"] = [m, n]
        if not np.array_equal(np.asarray(self.matrix), A):
            mon.fail("matrix-mutated", "solve leaves the assembled matrix alone", shape_before=[m, n],
                     shape_after=list(np.shape(self.matrix)))
        # expected right-hand side, observed through the public method (idempotent)
        b_raw, avg = self.set_velocity_matrix(timeseries, **kwargs)
        b_raw = np.asarray(b_raw, float).reshape(-1)
        if method == "lsq_linear":
            Mexp = np.zeros((n + 1, n + 1))
            Mexp[:n, :n] = A.T @ A
            Mexp[n, :n] = 1
            Mexp[:n, n] = 1
            rexp = np.concatenate([A.T @ b_raw, [n]]).round(3)
        else:
            Mexp, _ = fb.augment(A)
            rexp = np.concatenate([b_raw, [n]]).round(3)
        mon.count("hook:compared")
        if rec["mprime"].shape != Mexp.shape or not np.allclose(rec["mprime"], Mexp, rtol=0, atol=1e-12):
            mon.fail("augmented-matrix", "solved system = force-balance equations + row 'sum of tensions = number of "
                     "interfaces' + multiplier column", shape_rec=list(rec["mprime"].shape), shape_exp=list(Mexp.shape))
            return True
        if rec["b"].shape != rexp.shape or not np.allclose(rec["b"], rexp, rtol=0, atol=1e-9):
            mon.fail("augmented-rhs", "right-hand side = velocity term rounded to 3 decimals, then the number of interfaces",
                     diff=float(np.abs(rec["b"] - rexp).max()) if rec["b"].shape == rexp.shape else None)
            return True
        # reported tensions: one value per internal interface, -1 at interfaces excluded by an angle limit (C16's subject),
        # the values of the unknowns at the remaining positions
        internal = [b.get_vertices_ids() for b in self.frame.internal_big_edges]
        is_ex = [(p_[0] in self.deletes and p_[-1] in self.deletes) for p_ in internal]
        keys_ok = all(i in result for i in range(len(internal))) and \
            len([k_ for k_ in result if isinstance(k_, (int, np.integer))]) == len(internal)
        x = np.array([result[i] for i in range(len(internal)) if not is_ex[i]], float) if keys_ok else None
        if x is None or len(x) != n:
            mon.fail("result-shape", "one reported tension per unknown", keys=list(result)[:6], n=n, internal=len(internal),
                     excluded=int(sum(is_ex)))
            return True
        if not np.all(np.isfinite(x)):
            mon.fail("non-finite", "all reported values are finite")
            return True
        if np.abs(x - rec["xres"][:n]).max() > 0:
            mon.fail("result-differs-from-raw", "reported tensions are the solver's values", diff=float(np.abs(x - rec["xres"][:n]).max()))
        # optimality on the EXPECTED augmented system (static formulation: equations + sum row)
        Maug, _ = fb.augment(A)
        raug = np.concatenate([b_raw, [n]]).round(3)
        lam = max(0.0, float(np.mean(raug[:m] - A @ x))) if m else 0.0
        z = np.concatenate([x, [lam]])
        zref, _ = fb.nnls_ref(Maug, raug)
        obj, objref = fb.objective(Maug, raug, z), fb.objective(Maug, raug, zref)
        scale = float(raug @ raug)
        consistent = objref <= 1e-18 * scale
        c["consistent"] = bool(consistent)
        # for the lsq_linear back-end (normal equations + an exact Lagrange constraint, no extra unknown in the equations)
        # "consistent" means that the force-balance equations themselves are solvable with non-negative tensions of mean one
        if method == "lsq_linear":
            Mfb = np.vstack([A, np.ones((1, n))])
            zfb, _ = fb.nnls_ref(Mfb, raug)
            consistent = fb.objective(Mfb, raug, zfb) <= 1e-18 * scale
            c["consistent"] = bool(consistent)
        if not allow_neg:
            mon.count("kkt:checked")
            if x.min() < 0:
                mon.fail("negative", "no reported tension is negative when negatives are disallowed", min=float(x.min()),
                         path=rec["path"])
            if method == "lsq_linear" and not consistent:
                c["note"] = "lsq_linear-inconsistent"     # outside the property's domain for this back-end
            else:
                if method == "lsq":
                    gap = obj - objref
                    # lmfit stops at relative parameter / cost changes of about 1e-7: absolute floor 1e-10 * |rhs|^2
                    if gap > 1e-6 * objref + 1e-8 * scale:
                        # lmfit keeps a parameter >= 0 through a sqrt transform whose derivative vanishes AT the bound: once a
                        # tension (or the multiplier) reaches 0 during the iteration it stays there although the optimum has
                        # it positive (known finding F-LSQ-BOUND-STICKING)
                        raw_ = np.asarray(rec["xres"], float)
                        stuck = bool(np.any((np.abs(raw_) <= 1e-9) & (zref > 1e-6))) if raw_.shape == zref.shape else False
                        # Levenberg-Marquardt (lmfit, default tolerances) stops early now and then: regularly on ill-scaled systems
                        # (dimensional velocities of a drifting tissue with a small time unit: relative objective gap of a few
                        # 1e-6, tensions off by up to 0.2), rarely on ordinary ones (3.6e-5 once in ~1400 lsq systems): known
                        # finding F-LSQ-EARLY-STOP; a relative gap above 1e-4 is something else
                        ill_ = rec["path"] == "lsq" and gap <= 1e-4 * objref
                        mon.fail("F-LSQ-BOUND-STICKING" if (stuck and rec["path"] == "lsq") else ("F-LSQ-EARLY-STOP" if ill_ else "not-optimal"), "reported tensions (+ best multiplier) minimise the squared residual over "
                                 "non-negative candidates", gap=gap, obj=obj, objref=objref, path=rec["path"], method=method)
                else:
                    tau = 1e-7 if method != "lsq_linear" else 1e-5
                    ok, rep = fb.kkt(Maug, raug, z, tau=tau)
                    gap = obj - objref
                    gap_tol = 1e-9 * max(objref, 1e-10 * scale)
                    if method == "lsq_linear":
                        # scipy's trf works on the (squared) normal equations with tol=1e-10 on the cost; on rank-deficient
                        # systems it stops with a residual of up to ~0.3 % of |rhs| (thorough sweep, seed 2)
                        gap_tol = 1e-6 * objref + 1e-8 * scale
                    if not ok and gap > gap_tol:
                        mech = "not-optimal"
                        if rec["path"] == "inv" and rec["xres"][-1] < 0 and x.min() >= 0:
                            mech = "inv-negative-multiplier"
                        mon.fail(mech, "reported tensions (+ some non-negative multiplier) satisfy the KKT conditions of "
                                 "min ||Mz-b||, z>=0", kkt=rep, gap=gap, objref=objref, path=rec["path"], method=method,
                                 raw_multiplier=float(rec["xres"][-1]))
                g = Maug.T @ (Maug @ zref - raug)
                if fb.unique_optimum(Maug, zref, g) and not (method == "lsq_linear" and not consistent):
                    mon.count("unique:compared")
                    s = np.linalg.svd(Maug[:, zref > 1e-7], compute_uv=False)
                    cond = s.max() / s.min()
                    if method in ("lsq", "lsq_linear"):
                        # iterative back-ends do not land on the exact active set: their distance from the minimiser is
                        # governed by the conditioning of the whole system, not of the free columns only
                        s_all = np.linalg.svd(Maug, compute_uv=False)
                        cond = max(cond, s_all.max() / max(s_all.min(), 1e-300))
                    tol = {None: 1e-6, "lsq": 1e-3, "lsq_linear": 1e-3}.get(method, 1e-6) * cond
                    d = float(np.abs(x - zref[:n]).max())
                    if d > tol and tol < 0.05:
                        raw_ = np.asarray(rec["xres"], float)
                        stuck = method == "lsq" and rec["path"] == "lsq" and raw_.shape == zref.shape and \
                            bool(np.any((np.abs(raw_) <= 1e-9) & (zref > 1e-6)))
                        ill_ = method == "lsq" and rec["path"] == "lsq" and (obj - objref) <= 1e-4 * objref
                        mon.fail("F-LSQ-BOUND-STICKING" if stuck else ("F-LSQ-EARLY-STOP" if ill_ else "not-the-minimiser"), "equal to the unique minimiser within solver tolerance", diff=d,
                                 tol=tol, path=rec["path"], method=method)
                    else:
                        c["worst"] = max(c.get("worst", 0), d / tol)
        else:
            mon.count("neg-allowed:checked")
            if rec["path"] == "inv":
                r = np.linalg.norm(rec["mprime"] @ rec["xres"] - rec["b"])
                s = np.linalg.svd(rec["mprime"], compute_uv=False)
                if r > 1e-8 * (s.max() / max(s.min(), 1e-300)) * max(1.0, np.linalg.norm(rec["b"])):
                    mon.fail("inversion-inexact", "the inversion path returns an exact solution of the augmented system",
                             resid=float(r), cond=float(s.max() / max(s.min(), 1e-300)))
                if rec["xres"].min() >= 0:
                    g = Maug.T @ (Maug @ zref - raug)
                    if fb.unique_optimum(Maug, zref, g):
                        cond = s.max() / s.min()
                        d = float(np.abs(rec["xres"] - zref).max())
                        if d > 1e-6 * cond and 1e-6 * cond < 0.05:
                            mon.fail("inv-not-nnls", "a non-negative exact solution coincides with the NNLS optimum", diff=d)
        if consistent and (not (method == "lsq_linear") or True) and x.min() >= -1e-12:
            mon.count("mean-one:checked")
            mtol = {None: 1e-9, "lsq": 1e-5, "lsq_linear": 1e-5}.get(method, 1e-9)
            if method == "lsq_linear" and (m + 1 < n + 1 or np.linalg.matrix_rank(Maug) < n + 1):
                mtol = 1e-3     # rank-deficient (e.g. under-determined) systems: the iterative bounded solver stops early
            if abs(x.mean() - 1) > mtol * max(1.0, 1.0):
                # the mean is pinned by the sum row only through least squares: exact for consistent systems
                mon.fail("mean-not-one", "for consistent systems the mean reported tension is one", mean=float(x.mean()),
                         method=method, path=rec["path"])
        return True

    inst.ensure(fmatrix.ForceMatrix, "solve", reported_is_nnls_optimum, snapshots=[(matrix_before, "matrix")])
    _MON = mon
    return mon


def _noise(rng, r, amp):
    """perturb every vertex by gaussian noise of `amp` x the smallest mesh spacing"""
    sp = min(np.hypot(e.v1.x - e.v2.x, e.v1.y - e.v2.y) for e in r.edges.values())
    for v in r.vertices.values():
        v.x = float(v.x + rng.normal(0, amp * sp))
        v.y = float(v.y + rng.normal(0, amp * sp))


def _find_square(rng, at, tries=400):
    from fv.oracle import fb
    from fv.gen import tissue
    for _ in range(tries):
        size = int(rng.integers(3, min(16, len(at.cells)) + 1))
        sub = at.sub(tissue.random_connected_subset(rng, at, size))
        m, n = len(fb.used_junctions(sub)), len(fb.internal_keys(sub))
        if m > 0 and 2 * m == n:
            return sub
    return None


def _solve(solver, when, method, allow_neg, mon, hist, sigs, fam, rhs, extra=None):
    kw = {"allow_negatives": allow_neg}
    if method is not None:
        kw["method"] = method
    if rhs == "velocity":
        kw["b_matrix"] = "velocity"
    if extra:
        kw.update(extra)
    CTX["cur"] = cur = {}
    try:
        solver.solve_stress(when=when, **kw)
    except Exception as exc:
        import traceback
        from forsys.exceptions import DifferentTissueException
        if isinstance(exc, DifferentTissueException):
            # the tracker refused a pair of generated frames (its documented pre-condition on the bounding box, C12): no
            # velocity term exists for this frame - outside the domain of C05, counted
            hist["frames-rejected-by-tracker"] = hist.get("frames-rejected-by-tracker", 0) + 1
        elif method == "fix_stress" and isinstance(exc, (ValueError, IndexError)):
            mon.fail("F-FIXSTRESS", "every selectable back-end returns a result", exc=repr(exc)[:160])
        else:
            mon.fail("solve-raises", "every selectable back-end returns a result", exc=repr(exc)[:200], method=method,
                     allow_negatives=allow_neg, fam=fam, rhs=rhs, tb=traceback.format_exc()[-500:])
        # a failed solve may leave the matrix damaged (C10's subject): rebuild for the next call
        CTX.pop("cur", None)
        return False
    CTX.pop("cur", None)
    if "path" in cur:
        hist["path:" + cur["path"]] = hist.get("path:" + cur["path"], 0) + 1
        hist["rhs:" + rhs] = hist.get("rhs:" + rhs, 0) + 1
        hist["consistent" if cur.get("consistent") else "inconsistent"] = hist.get("consistent" if cur.get("consistent") else "inconsistent", 0) + 1
        if cur["shape"][0] > 0:
            sigs.append([fam, cur["shape"][0] // 2, cur["shape"][1], method or "default", allow_neg, cur["path"], rhs])
    return True


METHODS = [None, None, "lsq", "lsq_linear", "fix_stress"]



def _suite_case(prop_id):
    """the repository's own test-suite as an extra workload, run under this property's monitors (shipped fixtures)"""
    from fv import suite
    data, tail = suite.run(prop_id)
    if data is None or data.get("exitstatus") not in (0, 1):
        return {"status": "inconclusive", "reason": "suite-did-not-run", "trace": tail}
    counters = {"suite:" + k: v for k, v in data["evals"].items()}
    counters["suite:runs"] = 1
    fails = list(data["fails"])
    if data.get("unraisable"):
        fails.append({"mech": "unraisable", "clause": "no destructor raises", "detail": {"events": data["unraisable"]}})
    if data.get("monitor_errors"):
        return {"status": "inconclusive", "reason": "monitor-error", "trace": data["monitor_errors"][-1], "counters": counters}
    if fails:
        return {"status": "violated", "findings": fails, "counters": counters, "sigs": [["suite"]]}
    if not data["evals"]:
        return {"status": "inconclusive", "reason": "suite-reached-no-monitor", "counters": counters}
    return {"status": "held", "sigs": [["suite", sum(data["evals"].values())]], "sig": ["suite"], "counters": counters,
            "observed": {"monitor_evaluations_in_suite": data["evals"]}}


def run_case(case):
    if case.get("fam") == "suite":
        return _suite_case(ID)
    from fv import env
    from fv.gen import scen, realise, tissue
    import forsys as fs
    from forsys import frames
    mon = _install()
    mon.reset()
    rng = np.random.default_rng(case["seed"])
    sigs, hist = [], {}
    fam = case["fam"]
    with env.Capture() as cap:
        if fam in ("noisy", "square", "equil"):
            for _ in range(case["count"]):
                base = scen.base_tissue(rng, "mob" if fam == "equil" else ["arc", "mob", "vor"][int(rng.integers(3))],
                                        ncells=int(rng.integers(8, 40)))
                if fam == "square":
                    base = _find_square(rng, base)
                    if base is None:
                        hist["no-square-found"] = hist.get("no-square-found", 0) + 1
                        continue
                elif len(base.cells) > 25:
                    base = base.sub(tissue.random_connected_subset(rng, base, int(rng.integers(8, 25))))
                base, posed = scen.pose(rng, base, mode=["id", "rot", "sim"][int(rng.integers(3))])
                r = realise.realise(base, k=int(rng.integers(1, 7)), rng=rng, relabel=bool(rng.integers(2)), flips="random")
                if fam != "equil":
                    _noise(rng, r, float(10 ** rng.uniform(-4, -0.7)))
                fr = frames.Frame(0, r.vertices, r.edges, r.cells)
                solver = fs.ForSys({0: fr})
                fit = ["dlite", "taubinSVD"][int(rng.integers(2))]
                if fam == "square":
                    combos = [(None, False), (None, True)]
                elif fam == "equil":
                    combos = [(None, False), ("lsq_linear", False), ("lsq", False)]
                else:
                    combos = [(METHODS[int(rng.integers(len(METHODS)))], bool(rng.integers(2))) for _i in range(3)]
                ok_prev = False
                for idx, (method, allow) in enumerate(combos):
                    if idx > 0 and ok_prev and rng.random() < 0.5:
                        # the SAME assembled system solved again with another back-end, without re-assembling it
                        hist["same-system-solved-again"] = hist.get("same-system-solved-again", 0) + 1
                    elif fam == "noisy" and rng.random() < 0.35:
                        # an angle limit that excludes a few interfaces: the sum row must count the REMAINING unknowns
                        solver.build_force_matrix(when=0, circle_fit_method=fit, angle_limit=float(rng.uniform(0.75, 0.95) * np.pi))
                        nex = len(fr.internal_big_edges) - len(solver.force_matrices[0].big_edges_to_use)
                        hist["with-excluded-interfaces"] = hist.get("with-excluded-interfaces", 0) + int(nex > 0)
                    else:
                        solver.build_force_matrix(when=0, circle_fit_method=fit)
                    ok_prev = _solve(solver, 0, method, allow, mon, hist, sigs, fam, "static")
        elif fam == "velocity":
            for _ in range(case["count"]):
                base = scen.base_tissue(rng, "arc", ncells=int(rng.integers(8, 30)))
                if rng.random() < 0.4:
                    sq = _find_square(rng, base, tries=100)
                    base = sq or base
                if len(base.cells) > 20:
                    base = base.sub(tissue.random_connected_subset(rng, base, int(rng.integers(6, 20))))
                step = 0.05 * base.min_ridge()
                fr = {}
                nfr = int(rng.integers(2, 4))
                cur = base
                # time unit: seconds ... milliseconds (velocities, and with them the multiplier, up to 1e3 times larger)
                tunit = float(10 ** rng.uniform(-4, -1.5)) if rng.random() < 0.4 else 1.0
                for t in range(nfr):
                    r = realise.realise(cur, k=3, rng=np.random.default_rng(1))
                    fr[t] = frames.Frame(t, r.vertices, r.edges, r.cells,
                                         time=float(t) * float(rng.uniform(0.5, 2)) * tunit if t else 0.0)
                    nxt = cur.copy()
                    drift_ = (3 * step * np.exp(1j * rng.uniform(0, 2 * np.pi))) if tunit < 1.0 and t == 0 and rng.random() < 0.7 else 0j
                    for j in nxt.J:
                        # a common drift of the whole tissue ends up in the multiplier (the column of ones)
                        nxt.J[j] = nxt.J[j] + step * complex(*rng.normal(0, 1, 2)) + drift_
                    cur = nxt
                solver = fs.ForSys(fr, cm=False)
                for when in range(nfr):
                    method, allow = METHODS[int(rng.integers(3))], bool(rng.integers(2))
                    solver.build_force_matrix(when=when)
                    _solve(solver, when, method, allow, mon, hist, sigs, fam, "velocity",
                           extra={"adimensional_velocity": bool(rng.integers(2))})
                if tunit < 1.0 and len(solver.frames[0].internal_big_edges) <= 40:
                    # the ill-scaled case for the iterative back-end: dimensional velocities of a drifting tissue, small time unit
                    solver.build_force_matrix(when=0)
                    _solve(solver, 0, "lsq", False, mon, hist, sigs, fam, "velocity", extra={"adimensional_velocity": False})
                    hist["lsq-ill-scaled-velocity"] = hist.get("lsq-ill-scaled-velocity", 0) + 1
        elif fam == "fixture":
            from forsys import surface_evolver as se
            fr = {}
            for t, f in enumerate(case["files"]):
                lat = se.SurfaceEvolver(os.path.join(FIX, f))
                fr[t] = frames.Frame(t, lat.vertices, lat.edges, lat.cells, time=float(t), gt=True)
            solver = fs.ForSys(fr, cm=False)
            for when in range(len(fr)):
                for method in (None, "lsq_linear", "fix_stress") + (("lsq",) if when == 0 else ()):
                    for rhs in (("static", "velocity") if len(fr) > 1 else ("static",)):
                        solver.build_force_matrix(when=when)
                        _solve(solver, when, method, False, mon, hist, sigs, "fixture", rhs,
                               extra={"adimensional_velocity": True} if rhs == "velocity" else None)
    if cap.unraisable:
        mon.fail("unraisable", "no swallowed destructor error", events=cap.unraisable[:2])
    hist["fallback-warnings"] = sum(1 for w in cap.warnings if "Numerically solving" in w)
    res = {"counters": dict(mon.evals), "hist": hist}
    if mon.fails:
        res.update(status="violated", findings=mon.fails)
        if sigs:
            res["sigs"] = sigs
        return res
    if not sigs:
        res.update(status="inconclusive", reason="no-system-solved")
        return res
    res.update(status="held", sigs=sigs, sig=sigs[0], observed={"systems": len(sigs)})
    return res
