"""C02 Force-balance equations use outward unit tangents at the right junctions.

Monitor: post-condition on the real ForceMatrix.__post_init__ (icontract).  Every coefficient of every junction of every
assembled system is compared with the analytic tangent of the generating arc/line tissue (O-TAN), the junction set and
column set with the oracle's (O-FB), and every remaining entry must be exactly zero."""
import numpy as np

ID = "C02"
RULE = ("Voronoi (straight), Moebius-image (exact arcs, |phi| from 1e-9 to ~1.2 rad), non-equilibrium arc tissues and "
        "axis-aligned square/brick/hexagonal lattices; whole tissues, random connected sub-tissues and ALL connected "
        "sub-tissues of small ones; poses: identity, random rotation, a chosen tangent within 1e-9..1e-1 rad of an axis "
        "(both sides, and exactly on it), similarity, reflection; 0..15 interior points per interface (constant or "
        "random per interface, uniform or uneven spacing); both circle fits; ignore_four on/off; random labels and "
        "orientations. distinct = (family, cells, junctions used, unknowns, points set, fit, ignore_four, pose mode); "
        "non-trivial = at least one junction equation"
        ' Added after the seeded rounds: lattices with 4-, 5..10- and 6-fold junctions, exact diagonals (lat-diamond) and rosettes; first segment exactly axis-parallel; an earlier build on the same object with other options or an angle limit; id 0 and ids up to 2^53+.'
        ' Lattice sub-tissues with ragged rims.')
MIN_DECISIVE = {"quick": 120, "thorough": 1500}
REQUIRED_COUNTERS = ["post:ForceMatrix", "coef:compared", "zero:entries"]
TECHNIQUE = ("runtime contract on ForceMatrix.__post_init__: per-coefficient comparison with closed-form tangents of "
             "generated arc/line tissues; F-MIRROR classified by its closed-form model")
CASE_TIMEOUT = {"quick": 300, "thorough": 900}
ASSUMPTIONS = ["analytic tangents of fv.gen.tissue.AT (Moebius derivative / chord rotated by the bulge angle) are correct",
               "fit precision classes eps_class(fit, phi, npoints) of fv.oracle.fb (measured margins are in the evidence)"]

CTX = {}


def anchors():
    from fv import env  # noqa
    from forsys import fmatrix, edge, virtual_edges as ve
    return [fmatrix.ForceMatrix.__post_init__, fmatrix.ForceMatrix._build_matrix, fmatrix.ForceMatrix.get_row,
            fmatrix.ForceMatrix.get_vertex_equation, ve.eid_from_vertex, edge.BigEdge.get_versor_from_vertex,
            edge.BigEdge.get_vector_from_vertex, edge.BigEdge.get_versor_sign,
            edge.BigEdge.get_straight_edge_versor_from_vid, ve.calculate_circle_center, ve.dlite_circle_method]


def cases(seed, tier):
    q = tier == "quick"
    out = []
    fams = ["mob"] * 4 + ["vor"] * 2 + ["arc"] * 2 + ["lat-square", "lat-brick", "lat-hex", "vor4", "mob4", "lat-tri", "lat-fan", "lat-diamond", "lat-rosette", "lat-tri", "lat-square"]
    n = 57 if q else 760
    for i in range(n):
        out.append({"fam": fams[i % len(fams)], "seed": [seed, 2, i], "count": 3})
    for i in range(4 if q else 30):
        out.append({"fam": "exh", "seed": [seed, 2, 10 ** 6 + i], "size": 6 + i % 3})
    return out


_MON = None


def _install():
    global _MON
    if _MON is not None:
        return _MON
    from fv import contracts
    from fv.oracle import fb
    from fv.gen import scen
    from forsys import fmatrix
    mon = contracts.Monitor()
    inst = contracts.Installed()

    def system_matches_oracle(self):
        c = CTX.get("cur")
        if c is None:
            return True
        mon.count("post:ForceMatrix")
        at, r, fit, ign = c["at"], c["r"], c["fit"], c["ignore_four"]
        pmap, inv = scen.physical_maps(r)
        # (a) unknowns = internal interfaces
        ref_keys = fb.internal_keys(at, r.ks)
        got_keys = []
        for p in self.big_edges_to_use:
            k = pmap.get(tuple(p))
            if k is None:
                mon.fail("unknown-path", "every unknown is an interface of the tissue", path=list(p)[:6])
                return True
            got_keys.append(k)
        if sorted(map(sorted, got_keys)) != sorted(map(sorted, ref_keys)):
            mon.fail("unknown-set", "exactly one unknown per internal interface", n_got=len(got_keys), n_ref=len(ref_keys))
            return True
        # (b) equations = junctions in >=3 cells with >=3 internal interfaces
        ref_j = fb.used_junctions(at, ignore_four=ign, ks=r.ks)
        got_j = sorted(inv.get(v, ("?", v)) for v in self.map_vid_to_row)
        if got_j != sorted(ref_j):
            miss = [j for j in ref_j if j not in got_j]
            extra = [j for j in got_j if j not in ref_j]
            ji = at.jifaces()
            deg = {j: len(ji[j]) for j in miss + [e for e in extra if e in ji]}
            mon.fail("junction-set", "one x- and one y-equation per junction shared by >=3 cells and >=3 internal "
                     "interfaces (>=4 left out with ignore_four), none for any other vertex",
                     missing=miss[:4], extra=extra[:4], degrees=deg, ignore_four=ign, fam=c["fam"])
        rows = sorted(self.map_vid_to_row.values())
        if rows != list(range(0, 2 * len(rows), 2)) or self.matrix.shape != (2 * len(rows), len(got_keys)):
            mon.fail("row-layout", "rows are distinct even numbers covering the matrix", rows=rows[:8],
                     shape=list(self.matrix.shape))
            return True
        # (c)/(d) coefficients
        ji = at.jifaces()
        col = {k: i for i, k in enumerate(got_keys)}
        M = self.matrix
        expected_nonzero = np.zeros(M.shape, bool)
        worst = 0.0
        nmir = 0
        for vid, row in self.map_vid_to_row.items():
            j = inv.get(vid)
            if j is None:
                continue
            for k in ji[j]:
                if k not in col:
                    continue
                npts = r.ks[k] + 2
                if npts == 2:
                    a, b = at.ends(k)
                    o = b if j == a else a
                    t = (at.J[o] - at.J[j]) / abs(at.J[o] - at.J[j])      # a two-point interface is a line
                else:
                    t = at.tangent(k, j)
                a_, b_ = at.ends(k)
                loc = max(abs(at.J[a_]), abs(at.J[b_])) / abs(at.J[a_] - at.J[b_])
                eps = fb.eps_class(fit, at.PHI[k], npts, loc)
                got = complex(M[row, col[k]], M[row + 1, col[k]])
                expected_nonzero[row, col[k]] = expected_nonzero[row + 1, col[k]] = True
                mon.count("coef:compared")
                err = max(abs(got.real - t.real), abs(got.imag - t.imag))
                if err <= eps:
                    worst = max(worst, err / eps)
                    continue
                q = fb.q_mirror(t, scen.first_segment(r, k, j))
                errq = max(abs(got.real - q.real), abs(got.imag - q.imag))
                if npts > 2 and errq <= eps and abs(q - t) > eps:
                    nmir += 1
                    mon.fail("F-MIRROR", "coefficient pair = unit tangent at the junction", got=[got.real, got.imag],
                             expected=[t.real, t.imag], err=err, npts=npts, phi=at.PHI[k], fit=fit)
                else:
                    mon.fail("coefficient" if npts > 2 else "coefficient-twopoint",
                             "coefficient pair = unit tangent at the junction, pointing from the junction",
                             got=[got.real, got.imag], expected=[t.real, t.imag], err=err, eps=eps, npts=npts,
                             phi=at.PHI[k], fit=fit, fam=c["fam"], pose=c["pose"])
        other = M[~expected_nonzero]
        mon.count("zero:entries", int(other.size))
        if other.size and np.any(other != 0):
            mon.fail("nonzero-elsewhere", "every other coefficient is zero", count=int(np.count_nonzero(other)))
        c["worst"] = max(c.get("worst", 0.0), worst)
        c["mirrored"] = c.get("mirrored", 0) + nmir
        c["shape"] = list(M.shape)
        return True

    inst.ensure(fmatrix.ForceMatrix, "__post_init__", system_matches_oracle)
    mon.check_object = system_matches_oracle
    _MON = mon
    return mon


def _one(rng, fam, at, mon, sigs, hist):
    from fv import env
    from fv.gen import scen, realise
    import forsys as fs
    from forsys import frames
    if fam.startswith("lat-"):      # keep lattices exactly axis aligned in most cases
        at, posed = scen.pose(rng, at, mode=["id", "id", "id", "rot", "axis"][int(rng.integers(5))])
    else:
        at, posed = scen.pose(rng, at)
    kmode = int(rng.integers(3))
    k = int(rng.integers(0, 16)) if kmode == 0 else ((0, 15) if kmode == 1 else (1, 6))
    if fam in ("mob", "arc", "mob4") and kmode == 0 and k == 0:
        k = 1
    if fam in ("mob", "arc", "mob4") and kmode == 1:
        k = (1, 15)
    fit = ["dlite", "taubinSVD"][int(rng.integers(2))]
    ign = bool(rng.random() < 0.3)
    with env.Capture() as cap:
        r = realise.realise(at, k=k, rng=rng, spacing="random" if rng.random() < 0.4 else "uniform",
                            relabel=bool(rng.integers(2)), shifts=True, flips="random", edge_dirs=True,
                            cell_order=bool(rng.integers(2)))
        if posed["mode"] == "axis" and rng.random() < 0.6:
            # the first SEGMENT of a curved interface exactly parallel to an axis (its sign vector has an exact zero)
            at, seg = scen.axis_segment(rng, at, r)
            if seg:
                posed = dict(posed, segment=seg)
                hist["axis-parallel-first-segment"] = hist.get("axis-parallel-first-segment", 0) + 1
        fr = frames.Frame(0, r.vertices, r.edges, r.cells)
        solver = fs.ForSys({0: fr})
        CTX["cur"] = {"at": at, "r": r, "fit": fit, "ignore_four": ign, "fam": fam, "pose": posed}
        try:
            if rng.random() < 0.5:
                # an earlier build of the same frame with OTHER options must not influence this one
                CTX["cur"] = None
                try:
                    kw0 = {}
                    if rng.random() < 0.5:
                        # ... including an opening-angle limit that leaves interfaces out of THAT system only
                        kw0["angle_limit"] = float(rng.uniform(0.55, 0.95) * np.pi)
                        hist["earlier-build-with-angle-limit"] = hist.get("earlier-build-with-angle-limit", 0) + 1
                    solver.build_force_matrix(when=0, metadata={"ignore_four": not ign},
                                              circle_fit_method=["dlite", "taubinSVD"][int(rng.integers(2))], **kw0)
                except Exception:
                    pass
                if rng.random() < 0.5:
                    # ... and the mesh is translated in place afterwards (registration, centring): nothing measured for the old
                    # position may enter the system that is assembled now
                    d_ = complex(*rng.uniform(-1, 1, 2)) * at.bbox_diam()
                    for v_ in r.vertices.values():
                        v_.x, v_.y = float(v_.x + d_.real), float(v_.y + d_.imag)
                    at = at.similarity(shift=d_)
                    r.at = at
                    hist["translated-in-place-between-builds"] = hist.get("translated-in-place-between-builds", 0) + 1
                CTX["cur"] = {"at": at, "r": r, "fit": fit, "ignore_four": ign, "fam": fam, "pose": posed}
                hist["rebuilt-with-other-options"] = hist.get("rebuilt-with-other-options", 0) + 1
            if not ign and rng.random() < 0.4:
                solver.build_force_matrix(when=0, circle_fit_method=fit)        # documented default: four-fold junctions kept
                hist["default-metadata"] = hist.get("default-metadata", 0) + 1
            else:
                solver.build_force_matrix(when=0, metadata={"ignore_four": ign}, circle_fit_method=fit)
        except Exception as exc:
            import traceback
            mon.fail("build-raises", "the system can be assembled", exc=repr(exc)[:200], fam=fam, pose=posed, fit=fit,
                     tb=traceback.format_exc()[-600:])
        cur = CTX["cur"]
        if "shape" not in cur and 0 in solver.force_matrices and not any(f["mech"] == "build-raises" for f in mon.fails):
            # the constructor contract did not run for this build (e.g. a cached object was returned): judge what the
            # solver now holds for the frame
            hist["judged-without-constructor"] = hist.get("judged-without-constructor", 0) + 1
            mon.check_object(solver.force_matrices[0])
        cur = CTX.pop("cur")
    if cap.unraisable:
        mon.fail("unraisable", "no swallowed destructor error", events=cap.unraisable[:2])
    hist[f"fam:{fam}"] = hist.get(f"fam:{fam}", 0) + 1
    hist[f"pose:{posed['mode']}"] = hist.get(f"pose:{posed['mode']}", 0) + 1
    hist[f"fit:{fit}"] = hist.get(f"fit:{fit}", 0) + 1
    if "shape" in cur and cur["shape"][0] > 0:
        sigs.append([fam, len(at.cells), cur["shape"][0] // 2, cur["shape"][1], sorted(set(r.ks.values()))[:6], fit, ign,
                     posed["mode"]])
        hist["mirrored-coefficients"] = hist.get("mirrored-coefficients", 0) + cur.get("mirrored", 0)
    return cur.get("worst", 0.0)


def run_case(case):
    from fv.gen import scen, tissue
    mon = _install()
    mon.reset()
    rng = np.random.default_rng(case["seed"])
    sigs, hist = [], {}
    worst = 0.0
    if case["fam"] == "exh":
        base = scen.base_tissue(rng, ["vor", "mob", "arc"][int(rng.integers(3))], ncells=int(rng.integers(14, 26)))
        if len(base.cells) > case["size"]:
            base = base.sub(tissue.random_connected_subset(rng, base, case["size"]))
        subs = [s for s in tissue.connected_subsets(base) if len(s) >= 3]
        for s in subs:
            worst = max(worst, _one(rng, "exh", base.sub(s), mon, sigs, hist))
        hist["exhaustive_subsets"] = len(subs)
    else:
        for _ in range(case["count"]):
            at = scen.base_tissue(rng, case["fam"])
            if not case["fam"].startswith("lat-"):
                at, _s = scen.maybe_sub(rng, at, p=0.4)
            elif case["fam"] not in ("lat-fan", "lat-rosette") and len(at.cells) > 4 and \
                    np.random.default_rng([len(at.J), case["seed"][2], 2]).random() < 0.5:
                # ragged rims: outline junctions of three or more cells that are pulled by outline AND internal interfaces
                # (decided without touching the case's random stream)
                sr = np.random.default_rng([len(at.cells), case["seed"][2], 5])
                at = at.sub(tissue.random_connected_subset(sr, at, int(sr.integers(4, len(at.cells)))))
                hist["lattice-sub-tissue"] = hist.get("lattice-sub-tissue", 0) + 1
            worst = max(worst, _one(rng, case["fam"], at, mon, sigs, hist))
    res = {"counters": dict(mon.evals), "hist": hist, "metrics": {"coef_err_over_eps": worst}}
    if mon.fails:
        res.update(status="violated", findings=mon.fails)
        if sigs:
            res["sigs"] = sigs
        return res
    if not sigs:
        res.update(status="inconclusive", reason="no-junction-equation")
        return res
    res.update(status="held", sigs=sigs, sig=sigs[0], observed={"systems": len(sigs), "worst_err_over_eps": worst})
    return res
