"""C18 Coarse-grained stress tensor: symmetric, linear, isotropic for pure pressure.

Monitor: post-condition on the real stress_tensor.stress_tensor and on Frame.calculate_stress_tensor: symmetry, the
zero-bin rule (oracle recomputes the grid with numpy.histogram semantics and looks tensors up by (row, column) keys that it
builds itself), joint linearity in (pressures, tensions), -p*I for pure pressure, principal stresses = eig per bin centre."""
import numpy as np

ID = "C18"
RULE = ("Voronoi / arc tissues (8..60 cells) with pressures and tensions assigned through the public objects (random, zero, "
        "negative, constant) x grid sizes 1..12 x radii 0.5..6 cell radii. distinct = (cells, grid, radius class, assignment "
        "class), 40 % of them in tiny (1e-7..1e-3) or huge (1e3..1e6) length units; non-trivial = at least one non-empty bin"
        " Added after the seeded rounds: reference pressures set, exact zeros, tiny / huge units, an earlier evaluation with another grid, numpy error states 'ignore' / 'warn'."
        ' 60 % of the tissues solved first.')
MIN_DECISIVE = {"quick": 100, "thorough": 1500}
REQUIRED_COUNTERS = ["post:stress_tensor", "bins:checked", "linearity:checked", "isotropy:checked", "principal:checked"]
TECHNIQUE = "runtime contract on stress_tensor / calculate_stress_tensor with metamorphic linearity and pure-pressure oracles"
CASE_TIMEOUT = {"quick": 400, "thorough": 1200}
ASSUMPTIONS = ["bins are those of numpy.histogram over the cell centroids; a bin is empty iff no centroid lies within "
               "radius*sqrt(mean |area|/pi) of its centre (bins whose nearest centroid is within 1e-9 of that distance are skipped)"]
CTX = {}


def anchors():
    from fv import env  # noqa
    from forsys import stress_tensor as st, frames
    return [st.stress_tensor, st.get_cells_df, st.get_big_edges_df, frames.Frame.calculate_stress_tensor]


def cases(seed, tier):
    q = tier == "quick"
    return [{"seed": [seed, 18, i], "count": 2} for i in range(84 if q else 800)]


_MON = None


def _install():
    global _MON
    if _MON is not None:
        return _MON
    from fv import contracts
    from forsys import stress_tensor as st
    mon = contracts.Monitor()
    inst = contracts.Installed()

    def tensors_are_symmetric_and_zero_where_empty(frame, grid, radius, result):
        c = CTX.get("cur")
        if c is None:
            return True
        mon.count("post:stress_tensor")
        sig, centers, (xb, yb) = result
        cm = np.array([cell.get_cm() for cell in frame.cells.values()])
        areas = np.array([abs(cell.get_area()) for cell in frame.cells.values()])
        _, xe = np.histogram(cm[:, 0], grid)
        _, ye = np.histogram(cm[:, 1], grid)
        if not (np.allclose(xe, xb, rtol=0, atol=0) and np.allclose(ye, yb, rtol=0, atol=0)):
            mon.fail("bins", "grid = numpy.histogram bins of the cell centres")
            return True
        rmin = radius * np.sqrt(areas.mean() / np.pi)
        tensors = {}
        occupied = {}
        collisions = 0
        for row in range(grid):
            for col in range(grid):
                key = f"{row}{col}"
                owners = [(r2, c2) for r2 in range(grid) for c2 in range(grid) if f"{r2}{c2}" == key]
                if len(owners) > 1:
                    collisions += 1
                t = sig.get(key)
                mon.count("bins:checked")
                if t is None:
                    mon.fail("bin-missing", "one tensor per grid cell", row=row, col=col)
                    continue
                t = np.asarray(t, float)
                tensors[(row, col)] = t
                if t.shape != (2, 2) or t[0, 1] != t[1, 0] or not np.all(np.isfinite(t)):
                    mon.fail("asymmetric", "each grid cell's stress tensor is symmetric", row=row, col=col, t=t.tolist())
                    continue
                cx, cy = (xe[row] + xe[row + 1]) / 2, (ye[col] + ye[col + 1]) / 2
                d = np.hypot(cm[:, 0] - cx, cm[:, 1] - cy)
                if abs(d.min() - rmin) <= 1e-9 * (rmin + abs(cx) + abs(cy)):
                    continue
                empty = d.min() > rmin
                occupied[(row, col)] = not empty
                if empty and np.any(t != 0):
                    mech = "F-STRESS-KEY" if (grid >= 11 and len(owners) > 1) else "empty-bin-nonzero"
                    mon.fail(mech, "zero matrix where no cell centre lies within the averaging radius", row=row, col=col,
                             grid=grid, owners=owners)
                if (not empty) and c.get("generic") and not np.any(t != 0):
                    mech = "F-STRESS-KEY" if (grid >= 11 and len(owners) > 1) else "nonempty-bin-zero"
                    mon.fail(mech, "a grid cell with cell centres in range carries a tensor", row=row, col=col, grid=grid,
                             owners=owners)
        c["tensors"] = tensors
        c["occupied"] = occupied
        c["collisions"] = collisions
        c["centres"] = ([(xe[i] + xe[i + 1]) / 2 for i in range(grid)], [(ye[i] + ye[i + 1]) / 2 for i in range(grid)])
        return True

    inst.ensure(st, "stress_tensor", tensors_are_symmetric_and_zero_where_empty)
    _MON = mon
    return mon


def _assign(fr, p, T):
    for cell, v in zip(fr.cells.values(), p):
        cell.pressure = float(v)
    for b, v in zip(fr.big_edges.values(), T):
        b.tension = float(v)


def run_case(case):
    from fv import env
    from fv.gen import scen, realise, tissue
    from forsys import frames, stress_tensor as st
    mon = _install()
    mon.reset()
    rng = np.random.default_rng(case["seed"])
    sigs, hist = [], {}
    for _ in range(case["count"]):
        at = scen.base_tissue(rng, ["vor", "arc", "mob"][int(rng.integers(3))], ncells=int(rng.integers(10, 70)))
        at, _s = scen.maybe_sub(rng, at, p=0.2, min_cells=5)
        unit = "unit"
        if rng.random() < 0.4:
            # the same tissue in physical units (metres for micrometre-sized cells) or in nanometres
            unit = ["tiny", "huge"][int(rng.integers(2))]
            at = at.similarity(scale=float(10 ** (rng.uniform(-7, -3) if unit == "tiny" else rng.uniform(3, 6))))
        hist["units:" + unit] = hist.get("units:" + unit, 0) + 1
        with env.Capture() as cap:
            r = realise.realise(at, k=int(rng.integers(1, 5)), rng=rng, relabel=bool(rng.integers(2)), flips="random")
            fr = frames.Frame(0, r.vertices, r.edges, r.cells)
        if rng.random() < 0.6:
            # a SOLVED tissue (the property's domain): the mesh edges then carry the inferred tensions; what the tensor uses are
            # the values the interfaces carry when it is evaluated
            try:
                import forsys as fs
                with env.Capture():
                    sv_ = fs.ForSys({0: fr})
                    sv_.build_force_matrix(when=0)
                    sv_.solve_stress(when=0, allow_negatives=False)
                hist["solved-first"] = hist.get("solved-first", 0) + 1
            except Exception:
                hist["solve-first-raised"] = hist.get("solve-first-raised", 0) + 1
        nc, nb = len(fr.cells), len(fr.big_edges)
        # reference pressures, as a Surface Evolver dump provides them: they must never leak into the tensor
        for cell in fr.cells.values():
            cell.gt_pressure = float(rng.normal(0, 1))
        grid = int(rng.integers(1, 13))
        radius = float(rng.choice([0.5, 1.0, 1.5, 2.0, 3.0, 6.0]))

        errmode = [None, None, "ignore", "warn"][int(np.random.default_rng([nc, nb, grid]).integers(4))]
        hist["errstate:" + str(errmode)] = hist.get("errstate:" + str(errmode), 0) + 1

        def run(p, T, generic):
            _assign(fr, p, T)
            CTX["cur"] = cur = {"generic": generic}
            try:
                with env.Capture():
                    if errmode is None:
                        st.stress_tensor(fr, grid, radius)
                    else:
                        # the caller's numpy error state (the package arms 'raise' on import, a user may set another)
                        with np.errstate(all=errmode):
                            st.stress_tensor(fr, grid, radius)
            except Exception as exc:
                import traceback
                mon.fail("raises", "the stress tensor is computed", exc=repr(exc)[:160], grid=grid, radius=radius,
                         tb=traceback.format_exc()[-300:])
            CTX.pop("cur", None)
            CTX["last"] = cur
            return cur.get("tensors"), cur.get("collisions", 0)
        p1, T1 = rng.normal(0, 1, nc), rng.uniform(0.2, 2, nb)
        p2, T2 = rng.normal(0, 1, nc), rng.normal(0, 1, nb)
        # exact zeros are legitimate values (a cell at the reference pressure, a slack interface)
        p2[rng.random(nc) < 0.4] = 0.0
        T2[rng.random(nb) < 0.3] = 0.0
        alpha = float(rng.uniform(-2, 3))
        s1, coll = run(p1, T1, True)
        s2, _c = run(p2, T2, False)       # exact zeros: a non-empty bin may legitimately carry the zero tensor
        s3, _c = run(alpha * p1 + p2, alpha * T1 + T2, True)
        if s1 and s2 and s3:
            mon.count("linearity:checked")
            for k in s1:
                scale = max(np.abs(s1[k]).max(), np.abs(s2[k]).max(), 1e-300)
                if np.abs(s3[k] - (alpha * s1[k] + s2[k])).max() > 1e-9 * scale * (1 + abs(alpha)):
                    mech = "F-STRESS-KEY" if (grid >= 11 and coll) else "nonlinear"
                    mon.fail(mech, "the tensor depends jointly linearly on pressures and tensions", bin=list(k), grid=grid)
                    break
        pc = float(rng.uniform(-3, 3)) if rng.random() < 0.7 else 0.0
        s4, _c = run(np.full(nc, pc), np.zeros(nb), False)
        if s4:
            mon.count("isotropy:checked")
            occ = CTX["last"].get("occupied", {})
            for k, t in s4.items():
                # a bin with cell centres in range (decided by the oracle; bins on the boundary of the radius are in
                # neither class) carries exactly -p*Id; every other reported tensor is either zero or -p*Id
                must = occ.get(k) is True and not (grid >= 11 and _c)
                if (must or np.any(t != 0)) and np.abs(t - (-pc) * np.eye(2)).max() > 1e-12 * max(1, abs(pc)):
                    mon.fail("not-isotropic", "-p times the identity when all tensions are zero and every cell has pressure p",
                             bin=list(k), t=t.tolist(), p=pc, occupied=bool(occ.get(k)))
                    break
        # principal stresses of the frame
        _assign(fr, p1, T1)
        CTX["cur"] = cur = {"generic": True}
        try:
            with env.Capture():
                if rng.random() < 0.6:
                    # an earlier evaluation with another grid must leave nothing behind
                    CTX["cur"] = None
                    fr.calculate_stress_tensor(coarsing=int(rng.integers(1, 13)), radius=float(rng.choice([0.5, 1.0, 3.0])))
                    CTX["cur"] = cur
                fr.calculate_stress_tensor(coarsing=grid, radius=radius)
            tens = cur.get("tensors")
            xc, yc = cur["centres"]
            mon.count("principal:checked")
            if len(fr.principal_stress) != grid * grid:
                mon.fail("principal-count", "principal stresses for every grid centre", got=len(fr.principal_stress), want=grid * grid)
            for row in range(grid):
                for col in range(grid):
                    got = fr.principal_stress.get((xc[row], yc[col]))
                    if got is None:
                        mon.fail("principal-missing", "principal stresses keyed by the grid centre", row=row, col=col)
                        break
                    w, v = np.linalg.eig(tens[(row, col)]) if False else (None, None)
                    # the tensor of THIS bin, looked up by the oracle through (row, col) of the independently computed result
                    w_ref, v_ref = np.linalg.eig(s1[(row, col)])
                    if not (np.allclose(got[0], w_ref, rtol=1e-12, atol=1e-300) and np.allclose(got[1], v_ref, rtol=1e-12, atol=1e-300)):
                        owners = [(r2, c2) for r2 in range(grid) for c2 in range(grid) if f"{r2}{c2}" == f"{row}{col}"]
                        mon.fail("F-STRESS-KEY" if (grid >= 11 and len(owners) > 1) else "principal",
                                 "principal stresses are the eigenvalues/eigenvectors of the bin's tensor", row=row, col=col, grid=grid)
                        break
        except Exception as exc:
            mon.fail("principal-raises", "principal stresses are computed", exc=repr(exc)[:160], grid=grid)
        CTX.pop("cur", None)
        hist[f"grid>=11"] = hist.get("grid>=11", 0) + int(grid >= 11)
        nonempty = sum(1 for t in (s1 or {}).values() if np.any(t != 0))
        if nonempty:
            sigs.append([len(fr.cells), grid, radius, nonempty])
    res = {"counters": dict(mon.evals), "hist": hist}
    if mon.fails:
        res.update(status="violated", findings=mon.fails, sigs=sigs)
        return res
    if not sigs:
        res.update(status="inconclusive", reason="no-nonempty-bin")
        return res
    res.update(status="held", sigs=sigs, sig=sigs[0], observed={"tissues": len(sigs)})
    return res
