"""C15 Skeleton images are parsed into the tissue's true topology.

Monitor: post-condition on the pipeline Skeleton(path, mirror_y).create_lattice() -> generate_mesh(ne) -> Frame, against
O-RASTER (enclosed regions of the raster by 4-connected background labelling, independent of OpenCV contours) and the
generating Voronoi diagram, plus a metamorphic comparator over the 8 symmetries of the square, padding and mirror_y."""
import os
import shutil
import tempfile
import numpy as np

ID = "C15"
RULE = ("rasterised jittered-hexagonal Voronoi tissues (4..60 cells, junction angles > 25 deg, ridges > 9 px, 35..90 px per "
        "cell, thinned to minimal 8-connectivity), the same with a lumen (8..13 interior cells merged into one region of at least "
        "7 mean cell areas: only the ordinary regions, consistency and the symmetries are judged there) and the shipped skeletons, each under the 8 symmetries of the square, "
        "padding and mirror_y; ne in 3..9. A raster on which the region oracle and the generating Voronoi diagram disagree is "
        "discarded as a generator failure (counted). distinct = (cells, image size, symmetry, mirror_y, ne, pad); "
        "non-trivial = at least one internal interface"
        ' Added after the seeded rounds: the five in_vivo skeletons, images with a lumen (only ordinary regions judged).'
        " The parser's rescale / offset option in a third of the parses.")
MIN_DECISIVE = {"quick": 60, "thorough": 1200}
REQUIRED_COUNTERS = ["pipeline:run", "cells:compared", "border:compared", "pairs:compared", "symmetry:compared"]
TECHNIQUE = ("runtime check of the parse->resample->frame pipeline against a region-labelling oracle and the generating "
             "diagram; metamorphic comparison across image symmetries")
CASE_TIMEOUT = {"quick": 900, "thorough": 2400}
SHARD_TIMEOUT = {"quick": 1500, "thorough": 7200}
ASSUMPTIONS = ["generated rasters satisfy the property's pre-condition (one-pixel-wide, 8-connected, minimal junction pixels) when "
               "the number of enclosed regions equals the number of generating cells"]
FIX = "/repo"


def anchors():
    from fv import env  # noqa
    from forsys import skeleton as sk
    S = sk.Skeleton
    return [S.__post_init__, S.create_lattice, S.do_t3_transition, S.get_artifacts, S.add_vertices_to_current, S.create_edge,
            S.get_vertex_id_by_position, S.calculate_area]


def cases(seed, tier):
    q = tier == "quick"
    out = [{"fam": "gen", "seed": [seed, 15, i]} for i in range(14 if q else 200)]
    shipped = ["tests/data/test_nonzero.tif", "tests/data/experimental/exp_1.tif", "examples/data/in_vivo/t_1.tif"]
    if not q:
        shipped += [f"examples/data/in_vivo/t_{i}.tif" for i in (0, 2, 3, 4)]
    out += [{"fam": "fixture", "file": f, "seed": [seed, 15, 10 ** 5 + j]} for j, f in enumerate(shipped)]
    out += [{"fam": "lumen", "seed": [seed, 15, 2 * 10 ** 5 + i]} for i in range(3 if q else 40)]
    return out


SYMS = ["id", "rot90", "rot180", "rot270", "flipud", "fliplr", "transpose", "antitranspose"]


def apply_sym(a, name):
    """transform of the framed image array; returns array and a function mapping (x, y) pixel coordinates"""
    H, W = a.shape
    if name == "id":
        return a, lambda x, y: (x, y)
    if name == "rot90":      # np.rot90 counter-clockwise: new[i, j] = a[j, W-1-i]
        return np.rot90(a), lambda x, y: (y, W - 1 - x)
    if name == "rot180":
        return np.rot90(a, 2), lambda x, y: (W - 1 - x, H - 1 - y)
    if name == "rot270":
        return np.rot90(a, 3), lambda x, y: (H - 1 - y, x)
    if name == "flipud":
        return np.flipud(a), lambda x, y: (x, H - 1 - y)
    if name == "fliplr":
        return np.fliplr(a), lambda x, y: (W - 1 - x, y)
    if name == "transpose":
        return a.T, lambda x, y: (y, x)
    if name == "antitranspose":
        return np.rot90(a, 2).T, lambda x, y: (H - 1 - y, W - 1 - x)
    raise ValueError(name)


def pad(a, n):
    """add n black pixels between the content and the frame"""
    inner = a[1:-1, 1:-1]
    out = np.zeros((inner.shape[0] + 2 * n + 2, inner.shape[1] + 2 * n + 2), a.dtype)
    out[1 + n:1 + n + inner.shape[0], 1 + n:1 + n + inner.shape[1]] = inner
    out[0, :] = out[-1, :] = 255
    out[:, 0] = out[:, -1] = 255
    return out, lambda x, y: (x + n, y + n)


def _pip(px, py, poly):
    inside = False
    n = len(poly)
    for i in range(n):
        x1, y1 = poly[i]
        x2, y2 = poly[(i + 1) % n]
        if (y1 > py) != (y2 > py):
            xi = x1 + (py - y1) * (x2 - x1) / (y2 - y1)
            if xi > px:
                inside = not inside
    return inside


def run_pipeline(img, path, mirror_y, ne, mon, rescale=None, offset=None):
    """returns dict(cells {cid: region label}, border set(labels), pairs set(frozenset(labels)), n_junctions) or None"""
    from fv.gen import raster
    from fv.oracle import mesh as omesh
    from forsys import skeleton, virtual_edges as ve, frames
    raster.save(img, path)
    lab, nlab, outside = raster.regions(img)
    sk = skeleton.Skeleton(path, mirror_y=mirror_y)
    kw_ = {}
    if rescale is not None:
        kw_ = {"rescale": rescale, "offset": offset}      # vertex = (pixel - offset) / rescale: physical units
    v, e, c = sk.create_lattice(**kw_)
    rx, ry = rescale if rescale is not None else (1.0, 1.0)
    ox, oy = offset if offset is not None else (0.0, 0.0)
    mon.count("pipeline:run")
    bad = omesh.check_mesh(v, e, c)
    if bad:
        mon.fail("inconsistent-mesh:parse", "the parsed mesh is consistent", first=bad[:3])
        return None
    # cell -> region label, from a pixel strictly inside the cell's polygon
    cell_label = {}
    for cid, cell in c.items():
        poly = [(vv.x * rx + ox, (sk.max_y - (vv.y * ry + oy)) if mirror_y else (vv.y * ry + oy)) for vv in cell.vertices]
        cx, cy = np.mean([p[0] for p in poly]), np.mean([p[1] for p in poly])
        found = None
        for r_ in range(0, 12):
            for dx in range(-r_, r_ + 1):
                for dy in range(-r_, r_ + 1):
                    if max(abs(dx), abs(dy)) != r_:
                        continue
                    px, py = int(round(cx)) + dx, int(round(cy)) + dy
                    if 0 <= py + 1 < lab.shape[0] and 0 <= px + 1 < lab.shape[1] and lab[py + 1, px + 1] > 0 \
                            and _pip(px, py, poly):
                        found = int(lab[py + 1, px + 1])
                        break
                if found:
                    break
            if found:
                break
        cell_label[cid] = found
    border_flag = {cid: bool(cell.is_border) for cid, cell in c.items()}
    v, e, c, _ = ve.generate_mesh(v, e, c, ne=ne)
    bad = omesh.check_mesh(v, e, c)
    if bad:
        mon.fail("inconsistent-mesh:resample", "the resampled mesh is consistent", first=bad[:3])
        return None
    fr = frames.Frame(0, v, e, c)
    pairs = set()
    for b in fr.internal_big_edges:
        if len(b.own_cells) != 2:
            mon.fail("own-cells", "an internal interface separates two cells", n=len(b.own_cells))
            continue
        pairs.add(frozenset(cell_label.get(x) for x in b.own_cells))
    nj = sum(1 for vv in v.values() if len(vv.ownEdges) >= 3)
    return {"labels": {cid: cell_label[cid] for cid in c}, "border": {cell_label[cid] for cid in c if border_flag[cid]},
            "pairs": pairs, "n_junctions": nj, "n_regions": nlab - len(outside), "lab": lab, "outside": outside,
            "n_internal": len(fr.internal_big_edges)}


def run_case(case):
    from PIL import Image
    from fv import env, contracts
    from fv.gen import raster
    mon = contracts.Monitor()
    rng = np.random.default_rng(case["seed"])
    sigs, hist = [], {}
    tmp = tempfile.mkdtemp(prefix="fv-c15-")
    path = os.path.join(tmp, "t.tif")
    try:
        with env.Capture() as cap:
            if case["fam"] in ("gen", "lumen"):
                nl = int(rng.integers(8, 14)) if case["fam"] == "lumen" else 0
                img, info = raster.voronoi_image(rng, ncells=int(rng.integers(35, 61) if nl else rng.integers(4, 61)), lumen=nl)
                lab0, n0, out0 = raster.regions(img)
                if nl:
                    # the lumen is ONE enclosed region, at least 7 times the mean ordinary region and every ordinary region
                    # below 3 times that mean: whether it counts as a cell is not judged (the parser drops regions above
                    # 5 times the mean), every ordinary region is
                    sizes = np.bincount(lab0.ravel(), minlength=n0 + 1)
                    ll = {int(lab0[int(round(info["sites"][c_][1])), int(round(info["sites"][c_][0]))]) for c_ in info["lumen"]}
                    ordinary = [l for l in range(1, n0 + 1) if l not in out0 and l not in ll]
                    mean_ = np.mean([sizes[l] for l in ordinary]) if ordinary else 0
                    if len(ll) != 1 or 0 in ll or not ordinary or sizes[list(ll)[0]] < 7 * mean_ or \
                            max(sizes[l] for l in ordinary) > 3 * mean_ or n0 - len(out0) != len(info["cells"]) - nl + 1:
                        return {"status": "inconclusive", "reason": "generator:lumen-not-decisive", "hist": {"generator-failure": 1}}
                    info["cells"] = [c_ for c_ in info["cells"] if c_ not in info["lumen"]]
                    lumen_site = info["sites"][info["lumen"][0]]
                    info["sites"] = {c_: p_ for c_, p_ in info["sites"].items() if c_ not in info["lumen"]}
                    hist["lumen-images"] = 1
                elif n0 - len(out0) != len(info["cells"]):
                    return {"status": "inconclusive", "reason": "generator:regions-differ-from-diagram",
                            "hist": {"generator-failure": 1}}
                site_label = {}
                for s_, p in info["sites"].items():
                    site_label[s_] = int(lab0[int(round(p[1])), int(round(p[0]))])
                if len(set(site_label.values())) != len(site_label) or 0 in site_label.values():
                    return {"status": "inconclusive", "reason": "generator:site-on-line", "hist": {"generator-failure": 1}}
            else:
                img = np.array(Image.open(os.path.join(FIX, case["file"])).convert("L"))
                info = None
            syms = SYMS
            lumen = case["fam"] == "lumen"
            base = None
            for si, sname in enumerate(syms):
                a, f = apply_sym(img, sname)
                npad = int(rng.integers(0, 3)) * 7 if si % 3 == 2 else 0
                if npad:
                    a, g = pad(a, npad)
                    f0 = f
                    f = (lambda f0, g: (lambda x, y: g(*f0(x, y))))(f0, g)
                mirror = bool(rng.integers(2))
                ne = int(rng.integers(3, 10))
                a = np.ascontiguousarray(a)
                resc = offs = None
                if (case["seed"][2] + si) % 3 == 0:
                    # the parser's physical-unit option: topology must not depend on it
                    resc = [float(10 ** rng.uniform(-1.5, 1.0)), float(10 ** rng.uniform(-1.5, 1.0))]
                    offs = [float(rng.uniform(-20, 20)), float(rng.uniform(-20, 20))]
                    hist["with-rescale"] = hist.get("with-rescale", 0) + 1
                try:
                    out = run_pipeline(a, path, mirror, ne, mon, resc, offs)
                except Exception as exc:
                    import traceback
                    mon.fail("pipeline-raises", "the mesh supports resampling and frame construction", exc=repr(exc)[:160],
                             sym=sname, mirror_y=mirror, ne=ne, pad=npad, tb=traceback.format_exc()[-500:])
                    continue
                if out is None:
                    continue
                # (1) one cell per enclosed region
                mon.count("cells:compared")
                labs = list(out["labels"].values())
                if lumen:
                    # ordinary regions only: exactly one cell each; a cell on the lumen is counted, not judged
                    x, y = f(int(round(lumen_site[0])), int(round(lumen_site[1])))
                    llab = int(out["lab"][y, x])
                    kept = labs.count(llab)
                    hist["lumen-kept-as-cell" if kept else "lumen-dropped"] = hist.get("lumen-kept-as-cell" if kept else "lumen-dropped", 0) + 1
                    ordl = [l for l in labs if l != llab]
                    if len(ordl) != out["n_regions"] - 1 or None in ordl or len(set(ordl)) != len(ordl) or kept > 1:
                        mon.fail("cell-count", "exactly one cell per enclosed region", cells=len(ordl), regions=out["n_regions"] - 1,
                                 sym=sname, mirror_y=mirror, ne=ne, unmatched=ordl.count(None), lumen=True)
                        continue
                    summary = (len(labs), len(out["border"]), len(out["pairs"]), out["n_junctions"])
                elif len(labs) != out["n_regions"] or None in labs or len(set(labs)) != len(labs):
                    mon.fail("cell-count", "exactly one cell per enclosed region", cells=len(labs), regions=out["n_regions"],
                             sym=sname, mirror_y=mirror, ne=ne, unmatched=labs.count(None))
                    continue
                if lumen:
                    pass
                elif info is not None:
                    # identify regions with generating cells through the transformed site positions
                    lab = out["lab"]
                    s2l = {}
                    for s_, p in info["sites"].items():
                        x, y = f(int(round(p[0])), int(round(p[1])))
                        s2l[s_] = int(lab[y, x])
                    l2s = {l: s_ for s_, l in s2l.items()}
                    if len(l2s) != len(s2l) or set(l2s) != set(labs):
                        mon.fail("cell-regions", "cells correspond to the enclosed regions", sym=sname)
                        continue
                    mon.count("border:compared")
                    got_border = {l2s[l] for l in out["border"]}
                    if got_border != set(info["border"]):
                        mon.fail("border-flags", "border cells are exactly those that touch the outside",
                                 extra=sorted(got_border - set(info["border"]))[:5],
                                 missing=sorted(set(info["border"]) - got_border)[:5], sym=sname, mirror_y=mirror)
                    mon.count("pairs:compared")
                    got_pairs = {frozenset(l2s[l] for l in p) for p in out["pairs"]}
                    if got_pairs != set(info["internal_pairs"]):
                        mon.fail("internal-pairs", "an internal interface for exactly those pairs of regions whose common "
                                 "boundary ends in an interior junction",
                                 extra=[sorted(p) for p in (got_pairs - set(info["internal_pairs"]))][:4],
                                 missing=[sorted(p) for p in (set(info["internal_pairs"]) - got_pairs)][:4], sym=sname,
                                 mirror_y=mirror, ne=ne)
                    summary = (len(labs), len(got_border), len(got_pairs), out["n_junctions"])
                else:
                    summary = (len(labs), len(out["border"]), len(out["pairs"]), out["n_junctions"])
                if base is None:
                    base = (sname, summary)
                else:
                    mon.count("symmetry:compared")
                    if summary != base[1]:
                        mon.fail("symmetry", "cell count, border cells, adjacency and junction count are the same for the "
                                 "flipped / transposed / rotated / padded / y-mirrored image", ref=list(base[1]), got=list(summary),
                                 sym=sname, mirror_y=mirror, ne=ne, pad=npad)
                hist["sym:" + sname] = hist.get("sym:" + sname, 0) + 1
                if out["n_internal"] > 0:
                    sigs.append([len(labs), list(a.shape), sname, mirror, ne, npad])
    finally:
        shutil.rmtree(tmp, ignore_errors=True)
    if cap.unraisable:
        mon.fail("unraisable", "no destructor raises", events=cap.unraisable[:2])
    for pat in ("BAD VERTEX DELETION", "not in list of vertices"):
        if cap.diag.get(pat):
            mon.fail("diagnostic", "the parser reports an internal inconsistency", pattern=pat, count=cap.diag[pat])
    res = {"counters": dict(mon.evals), "hist": hist}
    if mon.fails:
        res.update(status="violated", findings=mon.fails, sigs=sigs)
        return res
    if not sigs:
        res.update(status="inconclusive", reason="no-internal-interface")
        return res
    res.update(status="held", sigs=sigs, sig=sigs[0], observed={"images": len(sigs)})
    return res
