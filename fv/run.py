"""Driver: generate the cases of a property, shard them over worker processes, aggregate the monitor
verdicts, classify findings against KNOWN_FINDINGS.json, write evidence and replay files.

exit 0  property held on everything explored (known findings, if hit, are printed as KNOWN-FINDING lines)
exit 1  a violation not listed in KNOWN_FINDINGS.json was observed  (VIOLATION property=<id> replay=<path>)
exit 2  inconclusive: too few decisive cases, anchored code never reached, or monitors never evaluated
"""
import argparse
import hashlib
import importlib
import json
import os
import shutil
import subprocess
import sys
import tempfile
import time

ROOT = os.path.dirname(os.path.dirname(os.path.abspath(__file__)))
KF_PATH = os.path.join(ROOT, "KNOWN_FINDINGS.json")


def load_known(prop):
    try:
        data = json.load(open(KF_PATH))
    except FileNotFoundError:
        return {}
    return {e["mech"]: e for e in data.get("findings", [])
            if prop in e.get("properties", []) and e.get("status") == "known"}


def case_hash(case):
    return hashlib.sha1(json.dumps(case, sort_keys=True).encode()).hexdigest()[:12]


def run_workers(prop, cases, jobs, case_timeout, shard_timeout):
    work = tempfile.mkdtemp(prefix=f"fv-{prop}-", dir=os.environ.get("FV_WORK", None))
    try:
        jobs = max(1, min(jobs, len(cases)))
        shards = [cases[i::jobs] for i in range(jobs)]
        procs = []
        env = dict(os.environ)
        env["PYTHONPATH"] = ROOT + os.pathsep + env.get("PYTHONPATH", "")
        env.setdefault("PYTHONHASHSEED", "0")
        env["PYTHONDONTWRITEBYTECODE"] = "1"
        env.setdefault("OMP_NUM_THREADS", "1")
        env.setdefault("OPENBLAS_NUM_THREADS", "1")
        env.setdefault("MKL_NUM_THREADS", "1")
        for i, sh in enumerate(shards):
            sp = os.path.join(work, f"shard{i}.json")
            op = os.path.join(work, f"out{i}.json")
            json.dump({"cases": sh, "case_timeout": case_timeout}, open(sp, "w"))
            lp = open(os.path.join(work, f"log{i}.txt"), "w")
            p = subprocess.Popen([sys.executable, "-m", "fv.worker", prop, sp, op], cwd=ROOT, env=env,
                                 stdout=lp, stderr=subprocess.STDOUT)
            procs.append((p, sh, op, lp))
        results, reach, totals, lost = [], set(), {}, 0
        deadline = time.time() + shard_timeout
        for p, sh, op, lp in procs:
            try:
                p.wait(timeout=max(1, deadline - time.time()))
            except subprocess.TimeoutExpired:
                p.kill()
                p.wait()
            lp.close()
            if os.path.exists(op):
                try:
                    d = json.load(open(op))
                except Exception:
                    d = None
            else:
                d = None
            if d is None:
                # the child died or timed out: its cases are inconclusive, never a violation
                tail = open(lp.name).read()[-800:]
                for c in sh:
                    results.append({"status": "inconclusive", "reason": "worker-lost", "case": c, "findings": [],
                                    "counters": {}, "metrics": {}, "hist": {}, "trace": tail})
                lost += 1
                continue
            results.extend(d["results"])
            reach.update((a, b) for a, b in d["reach"])
            for k, v in d["reach_totals"].items():
                totals[k] = v
        return results, reach, totals, lost
    finally:
        shutil.rmtree(work, ignore_errors=True)


def aggregate(prop, mod, tier, seed, results, reach, totals, lost, t0):
    from fv import reach as freach
    known = load_known(prop)
    counters, hist, metrics, reasons = {}, {}, {}, {}
    held = violated = inconclusive = 0
    sigs = set()
    unknown_findings, known_hits = [], {}
    samples = []
    out_lines_early = []
    for r in results:
        for k, v in r.get("counters", {}).items():
            counters[k] = counters.get(k, 0) + v
        for k, v in r.get("hist", {}).items():
            hist[k] = hist.get(k, 0) + v
        for k, v in r.get("metrics", {}).items():
            if v is not None and (k not in metrics or v > metrics[k]):
                metrics[k] = v
        st = r["status"]
        fnd = r.get("findings", [])
        unk = [f for f in fnd if f.get("mech") not in known]
        for f in fnd:
            if f.get("mech") in known:
                known_hits.setdefault(f["mech"], []).append((r["case"], f))
        if unk:
            violated += 1
            unknown_findings.append((r, unk))
        elif st == "inconclusive":
            inconclusive += 1
            reasons[r.get("reason", "?")] = reasons.get(r.get("reason", "?"), 0) + 1
            if r.get("trace") and not any(l.startswith("harness trace") for l in out_lines_early):
                out_lines_early.append("harness trace (%s, case %s): %s" % (r.get("reason"), json.dumps(r["case"]), r["trace"][-700:]))
        else:
            held += max(1, len(r.get("sigs") or []))
            if r.get("sigs"):
                for sg in r["sigs"]:
                    sigs.add(json.dumps(sg, sort_keys=True))
            elif r.get("sig") is not None:
                sigs.add(json.dumps(r["sig"], sort_keys=True))
            if len(samples) < 3 and r.get("sig") is not None:
                samples.append({"case": r["case"], "sig": r.get("sig"), "observed": r.get("observed", {}),
                                "counters": r.get("counters", {})})
    out_lines = list(out_lines_early)
    OUT = os.environ.get("FV_OUT_DIR", ROOT)      # mutation experiments write their evidence / replays elsewhere
    rdir = os.path.join(OUT, "replays", prop)
    replay_paths = []
    shutil.rmtree(rdir, ignore_errors=True)
    if unknown_findings:
        os.makedirs(rdir, exist_ok=True)
        for r, unk in unknown_findings[:25]:
            path = os.path.join(rdir, f"{case_hash(r['case'])}.json")
            json.dump({"property": prop, "case": r["case"], "findings": unk, "trace": r.get("trace")},
                      open(path, "w"), indent=1, default=str)
            replay_paths.append(path)
            if len(replay_paths) <= 12:
                out_lines.append(f"VIOLATION property={prop} replay={os.path.relpath(path, ROOT)}")
            seen_m = {}
            for f in unk:
                seen_m.setdefault(f.get("mech"), f)
            if len(replay_paths) <= 6:
                out_lines.append("  " + "; ".join(f"{m}: {f.get('clause', '')} {json.dumps(f.get('detail', {}), default=str)[:240]}"
                                               for m, f in list(seen_m.items())[:3]))
    for mech, hits in sorted(known_hits.items()):
        e = known[mech]
        out_lines.append(f"KNOWN-FINDING: property={prop} {e['id']} {e['what']} (hit {len(hits)} times, e.g. in case "
                         f"{case_hash(hits[0][0])})")
    if unknown_findings:
        mh = {}
        for r, unk in unknown_findings:
            for f in unk:
                mh[f.get("mech")] = mh.get(f.get("mech"), 0) + 1
        out_lines.append(f"unlisted mechanisms: {json.dumps(mh)}")
    min_dec = mod.MIN_DECISIVE.get(tier, 1) if hasattr(mod, "MIN_DECISIVE") else 1
    reach_summary = freach.summarise(reach, totals)
    reached_any = (len(reach) > 0) or not totals
    must = getattr(mod, "REQUIRED_COUNTERS", [])
    missing = [c for c in must if counters.get(c, 0) == 0]
    must_h = getattr(mod, "REQUIRED_HIST", {}).get(tier, getattr(mod, "REQUIRED_HIST", {}).get("any", []))
    missing += [f"hist:{h}" for h in must_h if hist.get(h, 0) == 0]
    if unknown_findings:
        code = 1
        verdict = "violated"
    elif held < min_dec or not reached_any or missing or len(sigs) < 2:
        code = 2
        verdict = "inconclusive"
        out_lines.append(f"INCONCLUSIVE property={prop} held={held} (<{min_dec}?) reached={reached_any} "
                         f"missing_monitors={missing} distinct={len(sigs)} reasons={reasons}")
    else:
        code = 0
        verdict = "held"
    ev = {
        "property_id": prop, "tier": tier, "seed": seed, "level": "exploration",
        "coverage": {
            # executions judged by the monitors (a generated case usually holds several systems / frames / polygons)
            "evaluations": max(len(results), held + violated + inconclusive),
            "generated_cases": len(results),
            "distinct_nontrivial": len(sigs),
            "rule": mod.RULE,
            "samples": samples if samples else [{"case": results[0]["case"]}] if results else [],
            "exhaustive": False,
            "verdict": verdict,
            "decisive_held": held, "violating_cases": violated, "inconclusive_cases": inconclusive,
            "inconclusive_reasons": reasons,
            "monitor_evaluations": counters,
            "histograms": hist,
            "worst_observed": metrics,
            "anchored_lines_reached": reach_summary,
            "known_findings_hit": {m: len(h) for m, h in known_hits.items()},
            "workers_lost": lost,
        },
        "assumptions": getattr(mod, "ASSUMPTIONS", []),
        "wall_s": round(time.time() - t0, 2),
        "violations": violated,
    }
    extra = getattr(mod, "evidence_extra", None)
    if extra:
        ev["coverage"].update(extra(results))
    os.makedirs(os.path.join(OUT, "evidence"), exist_ok=True)
    json.dump(ev, open(os.path.join(OUT, "evidence", f"{prop}.json"), "w"), indent=1, default=str)
    return code, out_lines, ev


def main():
    ap = argparse.ArgumentParser()
    ap.add_argument("prop")
    ap.add_argument("--tier", default=os.environ.get("VERIF_TIER", "quick"))
    ap.add_argument("--replay")
    ap.add_argument("--jobs", type=int, default=int(os.environ.get("FV_JOBS", os.cpu_count() or 4)))
    ap.add_argument("--limit", type=int, default=0)
    a = ap.parse_args()
    prop = a.prop.upper()
    tier = a.tier if a.tier in ("quick", "thorough") else "quick"
    seed = int(os.environ.get("VERIF_SEED", "0") or 0)
    sys.path.insert(0, ROOT)
    t0 = time.time()
    if a.replay:
        from fv import env  # noqa: F401
        from fv import worker
        mod = importlib.import_module(f"fv.props.{prop.lower()}")
        data = json.load(open(a.replay))
        res = worker.jsonable(worker.run_one(mod, data["case"], 600))
        known = load_known(prop)
        unk = [f for f in res["findings"] if f.get("mech") not in known]
        print(json.dumps({k: res[k] for k in res if k != "case"}, indent=1, default=str)[:6000])
        if unk:
            print(f"VIOLATION property={prop} replay={a.replay}")
            sys.exit(1)
        sys.exit(0 if res["status"] != "inconclusive" else 2)
    mod = importlib.import_module(f"fv.props.{prop.lower()}")
    cases = mod.cases(seed, tier)
    if a.limit:
        cases = cases[:a.limit]
    ct = getattr(mod, "CASE_TIMEOUT", {}).get(tier, 180)
    stt = getattr(mod, "SHARD_TIMEOUT", {}).get(tier, 900 if tier == "quick" else 5400)
    results, reach, totals, lost = run_workers(prop, cases, a.jobs, ct, stt)
    code, lines, ev = aggregate(prop, mod, tier, seed, results, reach, totals, lost, t0)
    c = ev["coverage"]
    print(f"[{prop}] tier={tier} seed={seed} cases={c['evaluations']} held={c['decisive_held']} "
          f"violating={c['violating_cases']} inconclusive={c['inconclusive_cases']} distinct={c['distinct_nontrivial']} "
          f"wall={ev['wall_s']}s")
    print(f"[{prop}] monitors={json.dumps(c['monitor_evaluations'])}")
    if c["histograms"]:
        print(f"[{prop}] hist={json.dumps(c['histograms'])}")
    if c["worst_observed"]:
        print(f"[{prop}] worst={json.dumps(c['worst_observed'])}")
    if c["inconclusive_reasons"]:
        print(f"[{prop}] inconclusive_reasons={json.dumps(c['inconclusive_reasons'])}")
    for ln in lines:
        print(ln)
    sys.exit(code)


if __name__ == "__main__":
    main()
