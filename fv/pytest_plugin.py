"""pytest plugin: runs the repository's own test-suite with the monitors of one property installed
(`-p fv.pytest_plugin`, env FV_SUITE_PROP=c09, FV_SUITE_OUT=<json>).  A monitor that fires here is a witness on the
shipped fixtures, read like any other finding (never relaxed)."""
import importlib
import json
import os

_state = {}


def pytest_configure(config):
    prop = os.environ.get("FV_SUITE_PROP")
    if not prop:
        return
    from fv import env  # noqa: F401  (imports forsys from the tree under test)
    mod = importlib.import_module(f"fv.props.{prop}")
    mon = mod._install()
    mon.reset()
    if hasattr(mod, "CTX"):
        mod.CTX["cur"] = {"suite": True}
    _state.update(mod=mod, mon=mon, unraisable0=len(env.UNRAISABLE))


def pytest_sessionfinish(session, exitstatus):
    if not _state:
        return
    from fv import env, contracts
    from fv.worker import jsonable
    mon = _state["mon"]
    out = {"evals": mon.evals, "fails": mon.fails, "exitstatus": int(exitstatus),
           "unraisable": env.UNRAISABLE[_state["unraisable0"]:][:5], "monitor_errors": contracts.HARNESS_ERRORS[-3:]}
    json.dump(jsonable(out), open(os.environ["FV_SUITE_OUT"], "w"))
