"""O-TOPO: independent decomposition of a mesh into interfaces, from the three dictionaries only
(uses e.v1.id / e.v2.id and c.vertices; never ownEdges / ownCells / own_big_edges, which are what C08/C09 check).
Works on mesh-edge ids because the mesh is a multigraph after resampling (digons)."""


class Topo:
    def __init__(self, vertices, edges, cells):
        self.inc = {vid: [] for vid in vertices}          # vid -> [(eid, other)]
        for eid, e in edges.items():
            a, b = e.v1.id, e.v2.id
            self.inc.setdefault(a, []).append((eid, b))
            self.inc.setdefault(b, []).append((eid, a))
        self.vcells = {vid: set() for vid in vertices}
        for cid, c in cells.items():
            for v in c.vertices:
                self.vcells.setdefault(v.id, set()).add(cid)
        self.junctions = {v for v, l in self.inc.items() if len(l) >= 3}
        self.cells = {cid: [v.id for v in c.vertices] for cid, c in cells.items()}
        self.paths = self._paths()

    def _paths(self):
        seen = set()
        out = []
        for j in sorted(self.junctions):
            for eid, nxt in self.inc[j]:
                vp, ep = [j, nxt], [eid]
                ok = True
                while vp[-1] not in self.junctions:
                    cand = [(e2, w) for e2, w in self.inc[vp[-1]] if e2 != ep[-1]]
                    if len(cand) != 1:
                        ok = False      # dangling end (degree 1): not an interface
                        break
                    ep.append(cand[0][0])
                    vp.append(cand[0][1])
                if not ok:
                    continue
                key = frozenset(ep)
                if key in seen:
                    continue
                seen.add(key)
                out.append((tuple(vp), tuple(ep)))
        return out

    def is_internal(self, vp):
        return all(len(self.vcells[v]) >= 2 for v in vp) and \
            (len(self.vcells[vp[0]]) >= 3 or len(self.vcells[vp[-1]]) >= 3)

    def internal_paths(self):
        return [(vp, ep) for vp, ep in self.paths if self.is_internal(vp)]

    def cells_of_path(self, vp):
        """cells whose cycle contains the path's first segment as cyclically consecutive vertices"""
        a, b = vp[0], vp[1]
        out = set()
        for cid, cyc in self.cells.items():
            n = len(cyc)
            for i in range(n):
                if (cyc[i] == a and cyc[(i + 1) % n] == b) or (cyc[i] == b and cyc[(i + 1) % n] == a):
                    out.add(cid)
                    break
        if len(vp) > 2:
            out &= self.vcells[vp[1]]
        return out

    def cells_with_junction(self):
        return {cid for cid, cyc in self.cells.items() if any(v in self.junctions for v in cyc)}

    def cell_adjacency(self, edges):
        """pairs of cells that share a mesh edge (consecutive in both cycles)"""
        owner = {}
        for cid, cyc in self.cells.items():
            n = len(cyc)
            for i in range(n):
                owner.setdefault(frozenset((cyc[i], cyc[(i + 1) % n])), set()).add(cid)
        adj = set()
        for e in edges.values():
            cs = owner.get(frozenset((e.v1.id, e.v2.id)), set())
            for x in cs:
                for y in cs:
                    if x < y:
                        adj.add((x, y))
        return adj


def canon(path):
    t = tuple(path)
    r = t[::-1]
    return min(t, r)


def contraction_chain(t, ne, min_interfaces=3):
    """True iff the mesh contains a cluster of `min_interfaces` or more two-point BORDER interfaces that would be contracted
    (both ends in fewer than three cells, fewer than two cells in common), or a closed ring of them.  Two such interfaces
    belong to one cluster when they share a vertex or when ONE interface of any kind and length joins an end of the one to an
    end of the other (the contractions are done one after the other on stale neighbourhood information).  Clusters of two
    (the tops of two neighbouring cells) are contracted correctly by the package and are no excuse for anything."""
    two = [tuple(vp) for vp, ep in t.paths if len(vp) == 2 and len(vp) <= ne and len(t.vcells[vp[0]]) < 3
           and len(t.vcells[vp[1]]) < 3 and len(t.vcells[vp[0]] & t.vcells[vp[1]]) < 2]
    if len(two) < 2:
        return False
    links = {}
    for vp, ep in t.paths:
        # one interface of ANY length joining an end of one contracted interface to an end of another links them (thorough
        # seed 10: contractions at both ends of a multi-point interface left its cell one vertex short)
        links.setdefault(vp[0], set()).add(vp[-1])
        links.setdefault(vp[-1], set()).add(vp[0])
    parent = list(range(len(two)))

    def find(i):
        while parent[i] != i:
            i = parent[i]
        return i
    for i, a in enumerate(two):
        near = set(a) | set().union(*[links.get(x, set()) for x in a])
        for j in range(i + 1, len(two)):
            if near & set(two[j]):
                parent[find(i)] = find(j)
    comps = {}
    for i in range(len(two)):
        comps.setdefault(find(i), []).append(two[i])
    for members in comps.values():
        verts = {x for m in members for x in m}
        if len(members) >= min_interfaces or (len(members) >= 2 and len(members) >= len(verts)):
            return True
    return False
