"""O-MESH: the C09 consistency predicate over the three dictionaries (returns a list of inconsistency records)."""


def check_mesh(vertices, edges, cells, limit=12):
    bad = []

    def add(kind, msg):
        if len(bad) < limit:
            bad.append({"kind": kind, "msg": msg})

    for vid, v in vertices.items():
        if v.id != vid:
            add("vertex-key", f"vertex stored under {vid} has id {v.id}")
    for eid, e in edges.items():
        if e.id != eid:
            add("edge-key", f"edge stored under {eid} has id {e.id}")
        for v in (e.v1, e.v2):
            if vertices.get(v.id) is not v:
                add("edge-vertex-identity", f"edge {eid} refers to vertex {v.id} that is missing or another object")
        va = getattr(e, "verticesArray", None)
        if va is None or len(va) != 2 or va[0] is not e.v1 or va[1] is not e.v2:
            add("edge-verticesArray", f"edge {eid} verticesArray out of step with v1,v2")
        if e.v1 is e.v2 or e.v1.id == e.v2.id:
            add("edge-loop", f"edge {eid} joins a vertex to itself")
    for cid, c in cells.items():
        if c.id != cid:
            add("cell-key", f"cell stored under {cid} has id {c.id}")
        ids = [v.id for v in c.vertices]
        if len(set(ids)) != len(ids):
            add("cell-repeat", f"cell {cid} repeats a vertex")
        for v in c.vertices:
            if vertices.get(v.id) is not v:
                add("cell-vertex-identity", f"cell {cid} refers to vertex {v.id} that is missing or another object")
    inc = {vid: set() for vid in vertices}
    for eid, e in edges.items():
        for v in (e.v1, e.v2):
            if v.id in inc:
                inc[v.id].add(eid)
    own = {vid: set() for vid in vertices}
    for cid, c in cells.items():
        for v in c.vertices:
            if v.id in own:
                own[v.id].add(cid)
    for vid, v in vertices.items():
        if len(set(v.ownEdges)) != len(v.ownEdges):
            add("ownEdges-dup", f"vertex {vid} lists an edge twice")
        if len(set(v.ownCells)) != len(v.ownCells):
            add("ownCells-dup", f"vertex {vid} lists a cell twice")
        if set(v.ownEdges) != inc[vid]:
            add("ownEdges", f"vertex {vid} ownEdges {sorted(v.ownEdges)} != incident {sorted(inc[vid])}")
        if set(v.ownCells) != own[vid]:
            add("ownCells", f"vertex {vid} ownCells {sorted(v.ownCells)} != membership {sorted(own[vid])}")
    pairs = {frozenset((e.v1.id, e.v2.id)) for e in edges.values()}
    for cid, c in cells.items():
        ids = [v.id for v in c.vertices]
        if len(ids) < 2:
            continue
        for a, b in zip(ids, ids[1:] + ids[:1]):
            if frozenset((a, b)) not in pairs:
                add("cycle-edge", f"cell {cid}: consecutive vertices {a},{b} not joined by a mesh edge")
    return bad
