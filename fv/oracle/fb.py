"""O-TAN / O-FB / O-NNLS: analytic force-balance system of an abstract tissue, fit-precision classes, the
defect-aware model q(t) of F-MIRROR, and KKT certificates for non-negative least squares.  No forsys import."""
import numpy as np
import scipy.optimize as sco


# ---- circle-fit precision classes (per coefficient of a unit vector), measured on the unchanged tree; see DESIGN 4
def eps_class(fit, phi, npts, loc=1.0):
    """numerical precision of one coefficient of the unit tangent obtained from the circle fit.
    phi: bulge angle of the arc, npts: stored points, loc: |position| / chord length (coordinate offset amplifies
    cancellation).  Measured through BigEdge.get_vector_from_vertex on exact arcs (2 x 30000 arcs, phi 1e-12..1.6, 3..18 points,
    uniform and random spacing, offsets up to 1e6 chords, units 1e-6..1e3; margins >= 10x), on the tree with the repaired circle
    fit (analytic Jacobian, fix F-DLITE-STALL) and the straightness test at a relative sagitta of 1e-7:
      straight    two points, or relative sagitta <= 1e-7: the chord direction is used, error <= the bulge angle itself
                  (up to 2.5e-6 when the only interior points lie near an end)
      taubinSVD   err ~ eps_mach * loc / |phi|                       (algebraic fit, exact up to conditioning)
      dlite       MINPACK leastsq from the centroid with the analytic Jacobian: observed <= 1e-9 for loc <= 1e4 and
                  <= 1.6e-4 for loc ~ 1e6 (xtol 1.49e-8 is relative to the centre coordinates)"""
    if npts == 2 or (phi == 0.0 and loc <= 100):
        # two points, or exactly straight and detected as such by BigEdge.is_straight(): direction of the edge itself
        return 1e-12 * (1 + loc)
    a = abs(phi)
    # interfaces the code may treat as straight (relative sagitta <= 1e-7 <=> a <= 4e-7 for a point at the apex, up to
    # a ~ 2.5e-6 for interior points at 5 % of the arc): the error is the bulge angle, plus the rounding of the direction
    straight = (1.3 * a + 1e-12 * (1 + loc)) if a <= 3e-6 else 0.0
    if fit == "taubinSVD":
        return max(1e-12, 5e-14 * (1 + loc) * (1 + 1 / (100 * max(a, 4e-7))), straight)
    return max(3e-8 * (1 + loc / 10) , 1e-12, straight)


def internal_keys(at, ks=None):
    """the property's predicate: every vertex of the interface in >= 2 cells and one end in >= 3.  Interior points belong to
    the cells the interface bounds, so an interface with interior points needs two cells; a TWO-POINT interface (ks[k] == 0)
    only has its two ends, which can both lie in >= 2 cells although one side is the outside (outline segment at a
    four-fold junction) - by the literal predicate it is internal."""
    jc = at.jcells()
    out = []
    for k in sorted(at.E, key=sorted):
        a, b = at.ends(k)
        two_point = ks is not None and ks.get(k, 1) == 0
        if len(at.E[k]) == 2 or (two_point and len(jc[a]) >= 2 and len(jc[b]) >= 2):
            if len(jc[a]) >= 3 or len(jc[b]) >= 3:
                out.append(k)
    return out


def used_junctions(at, ignore_four=False, ks=None, keys=None):
    """junctions shared by >=3 cells and >=3 internal interfaces (>=4 left out with ignore_four)"""
    jc = at.jcells()
    ik = set(keys) if keys is not None else set(internal_keys(at, ks))
    ji = at.jifaces()
    out = []
    for j in sorted(at.J):
        n_int = sum(1 for k in ji[j] if k in ik)
        if len(jc[j]) >= 3 and n_int >= 3:
            if ignore_four and n_int >= 4:
                continue
            out.append(j)
    return out


def matrix(at, junctions=None, keys=None, tangent=None):
    keys = keys if keys is not None else internal_keys(at)
    junctions = junctions if junctions is not None else used_junctions(at, keys=keys)
    col = {k: i for i, k in enumerate(keys)}
    A = np.zeros((2 * len(junctions), len(keys)))
    ji = at.jifaces()
    for r, j in enumerate(junctions):
        for k in ji[j]:
            if k in col:
                t = at.tangent(k, j) if tangent is None else tangent(k, j)
                A[2 * r, col[k]] = t.real
                A[2 * r + 1, col[k]] = t.imag
    return A, junctions, keys


def augment(A, b=None):
    m, n = A.shape
    M = np.zeros((m + 1, n + 1))
    M[:m, :n] = A
    M[m, :n] = 1.0
    M[:m, n] = 1.0
    rhs = np.zeros(m + 1)
    if b is not None:
        rhs[:m] = b
    rhs[m] = n
    return M, rhs


def q_mirror(t, first_seg):
    """what the per-component sign forcing of the current code turns the true unit tangent t into (F-MIRROR model)"""
    s = np.array([1.0 if c == 0 else np.sign(c) for c in (first_seg.real, first_seg.imag)])
    return complex(abs(t.real) * s[0], abs(t.imag) * s[1])


def nullspace_dim(A, rtol=1e-9):
    if A.size == 0:
        return A.shape[1]
    s = np.linalg.svd(A, compute_uv=False)
    tol = rtol * max(s.max(), 1.0)
    return A.shape[1] - int((s > tol).sum())


def sigma_min_aug(A):
    M, _ = augment(A)
    s = np.linalg.svd(M, compute_uv=False)
    if M.shape[0] < M.shape[1]:
        return 0.0, float(s.max())          # fewer equations than unknowns: never unique
    return float(s.min()), float(s.max())


# ---------------------------------------------------------------------------------------------------------
def nnls_ref(M, rhs):
    old = np.geterr()
    np.seterr(all="ignore")
    try:
        z, rn = sco.nnls(M, rhs, maxiter=50 * M.shape[1] + 200)
    finally:
        np.seterr(**old)
    return z, rn


def kkt(M, rhs, z, tau=1e-7):
    """KKT certificate for  min ||M z - rhs||  s.t. z >= 0.   returns (ok, report)"""
    z = np.asarray(z, float)
    scale = max(1.0, np.linalg.norm(M, 2) ** 2 * max(np.abs(z).max(), 1.0), np.linalg.norm(M.T @ rhs, np.inf))
    g = M.T @ (M @ z - rhs)
    rep = {"min_z": float(z.min()), "min_g": float(g.min() / scale), "max_zg": float(np.abs(z * g).max() / scale)}
    ok = (z.min() >= -tau) and (g.min() >= -tau * scale) and (np.abs(z * g).max() <= tau * scale * max(1.0, np.abs(z).max()))
    return bool(ok), rep


def unique_optimum(M, z, g=None, tol=1e-7):
    """the NNLS optimum is unique when M has full column rank (strictly convex objective); otherwise strict
    complementarity + full column rank on the free set is sufficient"""
    if M.shape[0] >= M.shape[1]:
        s_all = np.linalg.svd(M, compute_uv=False)
        if s_all.min() > 1e-9 * max(1.0, s_all.max()):
            return True
    free = z > tol
    if g is not None:
        if np.any((~free) & (np.abs(g) <= tol)):
            return False
    if free.sum() == 0:
        return True
    s = np.linalg.svd(M[:, free], compute_uv=False)
    return bool(s.min() > 1e-8 * max(1.0, s.max()))


def objective(M, rhs, z):
    r = M @ z - rhs
    return float(r @ r)
