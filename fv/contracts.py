"""Runtime contracts on the real forsys functions (icontract), installed from the harness by rebinding the
module / class attribute, so internal callers (which go through module attributes) see them too.

Conditions are *named* functions whose parameter names are those of the monitored function (+ result / OLD);
they record into a Monitor and return True, so one violation does not abort the execution that is being
observed; the verdict is taken from the Monitor after the call.  Every condition counts its evaluations:
zero evaluations = the monitor was bypassed or never reached = inconclusive."""
import functools
import inspect
from fv import env

if env.HAVE_ICONTRACT:
    import icontract
else:           # pragma: no cover
    icontract = None


class PropertyBroken(AssertionError):
    pass


class Monitor:
    def __init__(self):
        self.evals = {}
        self.fails = []

    def count(self, name, n=1):
        self.evals[name] = self.evals.get(name, 0) + n

    def fail(self, mech, clause, **detail):
        if len(self.fails) < 40:
            self.fails.append({"mech": mech, "clause": clause, "detail": detail})

    def reset(self):
        self.evals = {}
        self.fails = []


HARNESS_ERRORS = []


def _guarded(condition):
    """a bug in a monitor must never look like a failure (or a success) of the code under test"""
    import traceback

    @functools.wraps(condition)
    def guarded(*a, **k):
        import numpy as np
        try:
            # the monitor's own arithmetic runs with underflow ignored (forsys arms np.seterr(all='raise') globally);
            # the code under test has already returned at this point
            with np.errstate(under="ignore"):
                return condition(*a, **k)
        except Exception:
            HARNESS_ERRORS.append(condition.__name__ + ": " + traceback.format_exc()[-900:])
            return True
    return guarded


class Installed:
    def __init__(self):
        self._undo = []

    def ensure(self, owner, name, condition, snapshots=()):
        """post-condition `condition` on owner.name; snapshots: [(capture_fn, name)] evaluated before the call"""
        raw = owner.__dict__[name] if isinstance(owner, type) else getattr(owner, name)
        is_static = isinstance(raw, staticmethod)
        orig = raw.__func__ if is_static else raw
        condition = _guarded(condition)
        if icontract is not None:
            w = icontract.ensure(condition, error=PropertyBroken)(orig)
            for cap, sname in snapshots:
                w = icontract.snapshot(cap, name=sname)(w)
        else:       # pragma: no cover  (same semantics without the library)
            sig = inspect.signature(orig)
            cpars = inspect.signature(condition).parameters

            @functools.wraps(orig)
            def w(*a, **k):
                ba = sig.bind(*a, **k)
                ba.apply_defaults()

                class _O:
                    pass
                old = _O()
                for cap, sname in snapshots:
                    cp = inspect.signature(cap).parameters
                    setattr(old, sname, cap(**{p: ba.arguments[p] for p in cp}))
                res = orig(*a, **k)
                kw = {}
                for p in cpars:
                    if p == "result":
                        kw[p] = res
                    elif p == "OLD":
                        kw[p] = old
                    else:
                        kw[p] = ba.arguments[p]
                if not condition(**kw):
                    raise PropertyBroken(condition.__name__)
                return res
        setattr(owner, name, staticmethod(w) if is_static else w)
        self._undo.append((owner, name, raw))
        return w

    def restore(self):
        for owner, name, raw in reversed(self._undo):
            setattr(owner, name, raw)
        self._undo = []
