"""Environment bootstrap for every check process.

* puts the repository under test first on sys.path (FV_REPO, default /repo) and asserts that the imported
  ``forsys`` package really is that working tree (no stale copy can be monitored by accident);
* makes the monitor libraries (icontract) importable from /verif/.deps, installing them offline from the
  wheelhouse when they are missing (a fresh restore has no .deps);
* installs the always-on "sanitizer" traps: FP-trap is forsys' own ``np.seterr(all='raise')`` (never relaxed
  here), destructor trap (sys.unraisablehook recorder), diagnostic-print trap and warning trap (Capture).
"""
import contextlib
import io
import os
import subprocess
import sys
import warnings

VERIF_ROOT = os.path.dirname(os.path.dirname(os.path.abspath(__file__)))
REPO = os.path.abspath(os.environ.get("FV_REPO", "/repo"))
DEPS = os.path.join(VERIF_ROOT, ".deps")
WHEELS = "/opt/veriftools/wheels"

os.environ.setdefault("FORSYS_VERIF", "1")          # the one repository hook (ForceMatrix.solve record)
os.environ.setdefault("PYTHONDONTWRITEBYTECODE", "1")
sys.dont_write_bytecode = True
os.environ.setdefault("MPLBACKEND", "Agg")


def ensure_deps():
    """icontract beside the repository's interpreter, offline. Returns True when importable."""
    if DEPS not in sys.path:
        sys.path.insert(0, DEPS)
    try:
        import icontract  # noqa: F401
        return True
    except Exception:
        pass
    try:
        subprocess.run([sys.executable, "-m", "pip", "install", "--quiet", "--no-index", "--find-links", WHEELS,
                        "--target", DEPS, "icontract"], check=True, stdout=subprocess.DEVNULL,
                       stderr=subprocess.DEVNULL, timeout=300)
        import importlib
        importlib.invalidate_caches()
        import icontract  # noqa: F401
        return True
    except Exception:
        return False


HAVE_ICONTRACT = ensure_deps()

if sys.path[0] != REPO:
    sys.path.insert(0, REPO)

with warnings.catch_warnings():
    warnings.simplefilter("ignore")
    import forsys  # noqa: E402

_ff = os.path.abspath(forsys.__file__)
assert _ff.startswith(REPO + os.sep), f"forsys imported from {_ff}, expected under {REPO}"

import numpy as np  # noqa: E402

assert np.geterr()["divide"] == "raise", "forsys is expected to arm the numpy FP trap on import"

# ---------------------------------------------------------------------------------------------------------
# destructor trap
UNRAISABLE = []


def _unraisable(unr):
    try:
        UNRAISABLE.append({"exc": repr(unr.exc_value), "obj": repr(unr.object)[:120],
                           "msg": str(unr.err_msg)})
    except Exception:
        UNRAISABLE.append({"exc": "?", "obj": "?", "msg": "?"})


sys.unraisablehook = _unraisable

DIAG_PATTERNS = ("edge already in vertex", "BAD VERTEX DELETION", "not in list of vertices",
                 "*** WARNING ****", "too different, skipping")


class Capture:
    """Captures stdout (the package reports inconsistencies through print), warnings and swallowed destructor
    errors raised while the code under test runs."""

    def __enter__(self):
        self._buf = io.StringIO()
        self._cm = contextlib.redirect_stdout(self._buf)
        self._cm.__enter__()
        self._w = warnings.catch_warnings(record=True)
        self.warnings_raw = self._w.__enter__()
        warnings.simplefilter("always")
        self._n0 = len(UNRAISABLE)
        return self

    def __exit__(self, *a):
        self._w.__exit__(*a)
        self._cm.__exit__(*a)
        self.stdout = self._buf.getvalue()
        self.warnings = [str(w.message) for w in self.warnings_raw]
        self.unraisable = UNRAISABLE[self._n0:]
        self.diag = {p: self.stdout.count(p) for p in DIAG_PATTERNS if p in self.stdout}
        return False

    @property
    def fallback_warned(self):
        return any("Numerically solving" in w for w in self.warnings)


def seterr_guard():
    """forsys re-arms the trap inside solve(); assert nobody relaxed it."""
    e = np.geterr()
    return all(v == "raise" for v in e.values())
