"""Writes /verif/MANIFEST.json from the property modules that exist (python -m fv.manifest)."""
import importlib
import json
import os
import subprocess

ROOT = os.path.dirname(os.path.dirname(os.path.abspath(__file__)))

BASELINE_OFF = ("cd /repo && env -u FORSYS_VERIF /venv/bin/python -m pytest -ra -q -p no:cacheprovider --timeout=900 "
                "--continue-on-collection-errors")


def main():
    props = [json.loads(l) for l in open(os.path.join(ROOT, "properties.jsonl"))]
    checks, na = [], []
    for p in props:
        pid = p["id"]
        path = os.path.join(ROOT, "fv", "props", pid.lower() + ".py")
        if not os.path.exists(path):
            na.append({"property_id": pid, "reason": "check not built yet (work in progress; the design in DESIGN.md "
                                                       "section 5 covers it with runtime monitoring)"})
            continue
        src = open(path).read()
        ns = {}
        # the modules import forsys lazily, so importing them here is cheap
        mod = importlib.import_module(f"fv.props.{pid.lower()}")
        checks.append({
            "property_id": pid,
            "quick_cmd": f"./check {pid} --tier quick",
            "thorough_cmd": f"./check {pid} --tier thorough",
            "evidence_file": f"evidence/{pid}.json",
            "replay_cmd_template": f"./check {pid} --replay {{path}}",
            "engine": "fv",
            "level_claimed": {"category": "exploration",
                              "text": getattr(mod, "LEVEL_TEXT", None) or (
                                  "Runtime monitoring of the real code on generated workloads (exploration, no proof): "
                                  + getattr(mod, "TECHNIQUE", "contracts and reference oracles on executions of the real code")
                                  + ". Workload: " + mod.RULE + ". The claim is only that the property held on the executions of "
                                  "this run; how many were decisive, how many distinct structural signatures, how often every "
                                  "monitor was evaluated and which anchored lines were reached is measured and written to the "
                                  "evidence file. A run with too few decisive cases or an unreached monitor exits 2 (inconclusive)."),
                              "design_ref": f"DESIGN.md section 5, {pid}"},
            "level_note": getattr(mod, "LEVEL_NOTE", None) or (
                "Trusted base: the generators and reference oracles under /verif/fv (numpy/scipy), icontract, CPython. "
                + "; ".join(getattr(mod, "ASSUMPTIONS", [])) + ". Known findings of this property (KNOWN_FINDINGS.json) are "
                "reported as KNOWN-FINDING lines and classified by mechanism predicates on the witness."),
            "technique": getattr(mod, "TECHNIQUE", "runtime monitoring: contracts/oracles on executions of the real code"),
        })
    try:
        commits = subprocess.run(["git", "-C", "/repo", "log", "--format=%H %s"], capture_output=True, text=True).stdout
        hook_commits = [l.split()[0] for l in commits.splitlines() if "FORSYS_VERIF" in l or l.split(" ", 1)[1].startswith("verif-hook")]
    except Exception:
        hook_commits = []
    man = {
        "version": 1,
        "setup_cmd": "/venv/bin/pip install --no-index --find-links /opt/veriftools/wheels --target /verif/.deps icontract",
        "hooks": {"guard": "FORSYS_VERIF",
                  "enable": "export FORSYS_VERIF=1 (read at call time by ForceMatrix.solve; nothing to build; ./check sets it)",
                  "baseline_off_cmd": BASELINE_OFF,
                  "source_commits": hook_commits,
                  "add_only": True},
        "engines": [{"name": "fv", "path": "fv/", "serves_properties": [c["property_id"] for c in checks],
                     "kind_free_text": "runtime monitoring harness: seeded workload generators, icontract post-conditions / "
                                       "invariants on the real forsys functions, independent reference oracles, metamorphic "
                                       "comparators, history checkers, FP / destructor / print / warning traps, sys.monitoring "
                                       "reach monitor; one fresh worker process per shard"}],
        "checks": checks,
        "not_applicable": na,
        "notes": "All checks import forsys from /repo's working tree in fresh processes (nothing is built or cached). "
                 "Exit 0 held / 1 VIOLATION / 2 inconclusive. Known findings: KNOWN_FINDINGS.json (keyed by mechanism).",
    }
    json.dump(man, open(os.path.join(ROOT, "MANIFEST.json"), "w"), indent=1)
    print(f"{len(checks)} checks, {len(na)} not_applicable")


if __name__ == "__main__":
    main()
