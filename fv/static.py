"""Shared driver: run static inference (and optionally the pressure step) on a realisation through the public API and
return everything keyed by PHYSICAL identity (interface key of the abstract tissue, junction id, cell id)."""
import numpy as np
from fv.gen import scen


class StaticResult:
    pass


def solve(r, fit="dlite", method=None, allow_negatives=False, pressures=True, ignore_four=False, reuse=None,
          angle_limit=None):
    """reuse: a previous StaticResult of the SAME mesh objects: the frame and the ForSys object are kept (the vertices may
    have been moved in place since), everything is built and solved again"""
    import forsys as fs
    from forsys import frames
    from fv.oracle import fb
    out = StaticResult()
    at = r.at
    if reuse is None:
        fr = frames.Frame(0, r.vertices, r.edges, r.cells)
        solver = fs.ForSys({0: fr})
    else:
        fr, solver = reuse.frame, reuse.solver
    out.frame, out.solver = fr, solver
    pmap, inv = scen.physical_maps(r)
    cinv = {v: k for k, v in r.cmap.items()}
    out.keys = [pmap.get(tuple(b.get_vertices_ids())) for b in fr.internal_big_edges]
    kwb = {} if angle_limit is None else {"angle_limit": angle_limit}
    solver.build_force_matrix(when=0, circle_fit_method=fit, metadata={"ignore_four": ignore_four}, **kwb)
    fm = solver.force_matrices[0]
    out.fm = fm
    cols = [pmap.get(tuple(p)) for p in fm.big_edges_to_use]
    out.cols = cols
    # equations keyed physically
    out.rows = {}
    for vid, row in fm.map_vid_to_row.items():
        j = inv.get(vid)
        for ax in (0, 1):
            out.rows[(j, ax)] = {cols[c]: float(fm.matrix[row + ax, c]) for c in np.nonzero(fm.matrix[row + ax])[0]}
    out.coef = {}
    for vid, row in fm.map_vid_to_row.items():
        j = inv.get(vid)
        for c in range(fm.matrix.shape[1]):
            if fm.matrix[row, c] != 0 or fm.matrix[row + 1, c] != 0:
                out.coef[(j, cols[c])] = complex(fm.matrix[row, c], fm.matrix[row + 1, c])
    kw = {"allow_negatives": allow_negatives}
    if method:
        kw["method"] = method
    solver.solve_stress(when=0, **kw)
    out.path = getattr(fm, "_verif", {}).get("path")
    out.tension = {k: float(b.tension) for k, b in zip(out.keys, fr.internal_big_edges)}
    A = np.array(fm.matrix, float)
    out.A = A
    M, rhs = fb.augment(A)
    out.M, out.rhs = M, rhs
    out.unique = False
    out.cond = np.inf
    if A.shape[0] > 0 and M.shape[0] >= M.shape[1]:
        s = np.linalg.svd(M, compute_uv=False)
        if s.min() > 1e-9 * s.max():
            z, _ = fb.nnls_ref(M, rhs)
            g = M.T @ (M @ z - rhs)
            out.unique = fb.unique_optimum(M, z, g)
            sf = np.linalg.svd(M[:, z > 1e-7], compute_uv=False)
            out.cond = float(sf.max() / sf.min())
            out.zref = z
    out.pressure = None
    if pressures and fr.internal_big_edges:
        solver.build_pressure_matrix(when=0)
        pm = solver.pressure_matrices[0]
        L = pm.lhs_matrix
        # connectivity of the pressure graph (needed for a well-posed comparison)
        ccols = [cid for cid in pm.mapping_order if pm.mapping_order[cid] not in pm.removed_columns]
        parent = {c: c for c in ccols}

        def find(x):
            while parent[x] != x:
                x = parent[x]
            return x
        for i in range(L.shape[0]):
            js = np.nonzero(L[i])[0]
            if len(js) == 2:
                parent[find(ccols[js[0]])] = find(ccols[js[1]])
        out.pressure_connected = len({find(c) for c in ccols}) == 1
        if out.pressure_connected:
            solver.solve_pressure(when=0, method="lagrange_pressure")
            df = fr.get_pressures()
            out.pressure = {cinv[int(i)]: float(p) for i, p in zip(df["id"], df["pressure"])}
            n = len(ccols)
            if n > 1:
                Q = np.linalg.svd(np.ones((1, n)))[2][1:].T
                s = np.linalg.svd(L @ Q, compute_uv=False)
                out.pcond = float(s.max() / max(s.min(), 1e-300))
            else:
                out.pcond = 1.0
    return out


def correct_tangent(r, key, j, fit):
    """correctly oriented unit tangent of interface `key` at junction j, from PUBLIC data only: the package's own circle
    centre (calculate_circle_center) rotated by 90 degrees and oriented along the first segment; for straight interfaces
    the direction of the interface.  Used to predict where F-MIRROR strikes without any analytic truth."""
    from forsys import virtual_edges as ve
    ch = r.imap[key]
    vs = [r.vertices[i] for i in ch]
    vj = r.vertices[r.jmap[j]]
    fs_ = scen.first_segment(r, key, j)
    z = np.array([complex(v.x, v.y) for v in vs])
    chord = z[-1] - z[0]
    dev = np.abs(((z - z[0]).conjugate() * chord).imag).max() / max(abs(chord) ** 2, 1e-300) if len(z) > 2 else 0.0
    if len(vs) == 2 or dev <= 1e-12:
        return fs_ / abs(fs_), fs_
    xc, yc = ve.calculate_circle_center(vs, method=fit)
    raw = complex(-(vj.y - yc), (vj.x - xc))
    raw = raw / abs(raw)
    if (raw.conjugate() * fs_).real < 0:
        raw = -raw
    return raw, fs_
