"""Reach monitor: which lines of the anchored mechanism did the workload actually execute?

sys.monitoring (3.12) LINE events restricted to the code objects of the anchored functions; every callback
returns DISABLE, so each line costs one event per process.  A check whose anchored functions were never
entered is inconclusive, never 'held'."""
import sys
import types

TOOL = 4  # free tool id (0-5); 0 debugger, 1 coverage, 2 profiler, 5 optimizer are conventional


class Reach:
    def __init__(self):
        self.hits = set()       # (qualname, lineno)
        self.codes = {}         # code -> qualname
        self.active = False

    def _collect(self, obj, prefix):
        if isinstance(obj, (staticmethod, classmethod)):
            obj = obj.__func__
        if isinstance(obj, types.FunctionType):
            self._add_code(obj.__code__, prefix)
        elif isinstance(obj, type):
            for k, v in vars(obj).items():
                self._collect(v, f"{prefix}.{k}")

    def _add_code(self, code, name):
        if code in self.codes:
            return
        self.codes[code] = name
        for c in code.co_consts:
            if isinstance(c, types.CodeType):
                self._add_code(c, f"{name}.<{c.co_name}>")

    def watch(self, *objs):
        for o in objs:
            name = getattr(o, "__qualname__", getattr(o, "__name__", repr(o)))
            mod = getattr(o, "__module__", "")
            self._collect(o, f"{mod.split('.')[-1]}.{name}")
        return self

    def start(self):
        if not hasattr(sys, "monitoring") or not self.codes:
            return self
        mon = sys.monitoring
        try:
            mon.use_tool_id(TOOL, "fv-reach")
        except ValueError:
            pass
        mon.register_callback(TOOL, mon.events.LINE, self._line)
        for code in self.codes:
            mon.set_local_events(TOOL, code, mon.events.LINE)
        self.active = True
        return self

    def _line(self, code, lineno):
        n = self.codes.get(code)
        if n is not None:
            self.hits.add((n, lineno))
        return sys.monitoring.DISABLE

    def stop(self):
        if self.active:
            mon = sys.monitoring
            for code in self.codes:
                mon.set_local_events(TOOL, code, 0)
            mon.register_callback(TOOL, mon.events.LINE, None)
            try:
                mon.free_tool_id(TOOL)
            except Exception:
                pass
            self.active = False

    def total_lines(self):
        out = {}
        for code, n in self.codes.items():
            lines = {ln for (_, _, ln) in code.co_lines() if ln is not None and ln != code.co_firstlineno}
            out[n] = sorted(lines)
        return out

    def report(self):
        return sorted([n, ln] for n, ln in self.hits)


def summarise(hit_pairs, totals):
    """hit_pairs: iterable of [name, line]; totals: {name: [lines]} -> {name: 'hit/total'} plus fraction"""
    per = {}
    for n, ln in hit_pairs:
        per.setdefault(n, set()).add(ln)
    out = {}
    for n, lines in totals.items():
        if not lines:
            continue
        h = len(per.get(n, set()) & set(lines))
        out[n] = f"{h}/{len(lines)}"
    return out
