"""Runs the repository's own tests under the monitors of one property (extra workload on the shipped fixtures)."""
import json
import os
import subprocess
import sys
import tempfile


def run(prop, timeout=1500):
    from fv import env
    fd, out = tempfile.mkstemp(prefix="fv-suite-", suffix=".json")
    os.close(fd)
    e = dict(os.environ)
    e.update(FV_SUITE_PROP=prop.lower(), FV_SUITE_OUT=out, PYTHONPATH=env.VERIF_ROOT + os.pathsep + e.get("PYTHONPATH", ""),
             FORSYS_VERIF="1", PYTHONDONTWRITEBYTECODE="1")
    try:
        p = subprocess.run([sys.executable, "-m", "pytest", "-q", "-p", "no:cacheprovider", "-p", "fv.pytest_plugin",
                            "--timeout=900", "tests"], cwd=env.REPO, env=e, capture_output=True, text=True, timeout=timeout)
        data = json.load(open(out)) if os.path.getsize(out) else None
        tail = (p.stdout or "")[-400:]
    except subprocess.TimeoutExpired:
        data, tail = None, "timeout"
    finally:
        try:
            os.remove(out)
        except OSError:
            pass
    return data, tail
