PATCHES = {
 # ---- C01/C02: tangents
 "C02/tangent-from-chord": [("forsys/edge.py",
   "        vector = np.array((- (vobject.y - yc), (vobject.x - xc)))\n",
   "        vector = np.array((- (vobject.y - yc), (vobject.x - xc)))\n        vector = np.array(self.get_straight_edge_versor_from_vid(vid), dtype=float) if len(self.vertices) > 6 else vector\n")],
 "C02/column-off-by-one": [("forsys/fmatrix.py",
   "                    arrx[pos] = versor[0]\n                    arry[pos] = versor[1]\n",
   "                    arrx[pos] = versor[0]\n                    arry[pos if len(vertex.ownCells) < 4 else (pos + 1) % len(arry)] = versor[1]\n")],
 "C02/swap-xy-long": [("forsys/fmatrix.py",
   "                    arrx[pos] = versor[0]\n                    arry[pos] = versor[1]\n",
   "                    arrx[pos] = versor[0] if len(big_edge.vertices) != 5 else versor[1]\n                    arry[pos] = versor[1] if len(big_edge.vertices) != 5 else versor[0]\n")],
 "C01/solve-round-b": [("forsys/fmatrix.py",
   "        b = b.astype(np.float64).flatten().round(3)\n",
   "        b = b.astype(np.float64).flatten().round(3)\n        mprime = mprime.round(2) if mprime.shape[1] > 40 else mprime\n")],
 # ---- C03 / C13
 "C13/dt-one-when-last": [("forsys/time_series.py",
   "        return (np.array([v1.x, v1.y]) - np.array([v0.x, v0.y])) / (tf - ti)",
   "        return (np.array([v1.x, v1.y]) - np.array([v0.x, v0.y])) / ((tf - ti) if initial_time != len(self.time_series) - 1 else -1.0)")],
 "C13/velocity-wrong-row": [("forsys/fmatrix.py",
   "                b[j, 0] = value[0]\n                b[j + 1, 0] = value[1]\n",
   "                b[j, 0] = value[0]\n                b[j + 1, 0] = value[1] if timeseries.time_series[self.frame.frame_id].time >= 0 else value[0]\n")],
 "C03/backward-sign": [("forsys/time_series.py",
   "            tt1 = initial_time - 1       \n",
   "            tt1 = initial_time - 1       \n            if len(self.time_series) > 3:\n                v0b = self.time_series[initial_time].vertices[point]\n                try:\n                    v1b = self.time_series[tt1].vertices[self.get_point_id_by_map(point, initial_time, tt1)]\n                    return (np.array([v1b.x, v1b.y]) - np.array([v0b.x, v0b.y])) / abs(self.time_series[tt1].time - self.time_series[initial_time].time)\n                except KeyError:\n                    pass\n")],
 # ---- C04
 "C04/own-cells-order": [("forsys/pmatrix.py",
   "        if self.frame.cells[big_edge_cells[0]].get_area_sign() > 0:",
   "        if self.frame.cells[big_edge_cells[1]].get_area_sign() > 0:")],
 "C04/normalized-turning": [("forsys/pmatrix.py",
   "        curvature = big_edge.calculate_total_curvature(normalized=False)",
   "        curvature = big_edge.calculate_total_curvature(normalized=len(big_edge.vertices) > 12)")],
 # ---- C05
 "C05/sum-row-rhs": [("forsys/fmatrix.py",
   "        b[-1, -1] = total_edges\n\n        if total_borders != 0:\n            # cmatrix forces\n            cMatrix = np.array([0.] * total_edges + [1.] * (total_borders * 2) + [0.])\n            mprime = np.hstack((mprime, cMatrix.reshape(-1, 1)))\n            cMatrix = np.concatenate((cMatrix, np.zeros(1)))\n            mprime = np.vstack((mprime, cMatrix))\n\n            b = np.vstack((b, np.zeros(b.shape[1])))\n\n        return mprime, b\n    \n    def add_mean_one_before",
   "        b[-1, -1] = total_edges if total_vertices != 2 * (total_edges // 2) else total_edges - 1\n\n        if total_borders != 0:\n            # cmatrix forces\n            cMatrix = np.array([0.] * total_edges + [1.] * (total_borders * 2) + [0.])\n            mprime = np.hstack((mprime, cMatrix.reshape(-1, 1)))\n            cMatrix = np.concatenate((cMatrix, np.zeros(1)))\n            mprime = np.vstack((mprime, cMatrix))\n\n            b = np.vstack((b, np.zeros(b.shape[1])))\n\n        return mprime, b\n    \n    def add_mean_one_before")],
 "C05/nnls-to-lstsq-clip": [("forsys/fmatrix.py",
   "            xres, _ = scop.nnls(mprime, b, maxiter=kwargs.get(\"nnls_max_iter\", 30 * mprime.shape[1]))\n\n        if kwargs.get(\"verbose\", False):",
   "            xres, _ = scop.nnls(mprime, b, maxiter=kwargs.get(\"nnls_max_iter\", 30 * mprime.shape[1]))\n            if np.count_nonzero(xres == 0) > 2:\n                xres = np.clip(np.linalg.lstsq(mprime, b, rcond=None)[0], 0, None)\n\n        if kwargs.get(\"verbose\", False):")],
 # ---- C07
 "C07/eid-threshold": [("forsys/virtual_edges.py",
   "        if len(list(set(earr[j]) & set(vbel))) >= 2:",
   "        if len(list(set(earr[j]) & set(vbel))) >= (2 if len(vbel) > 2 else 1):")],
 # ---- C08
 "C08/internal-predicate-drift": [("forsys/frames.py",
   "        self.internal_big_edges = [self.big_edges[eid] for eid, edge in enumerate(self.big_edges_list) \n                                    if eid not in self.external_edges_id and \n                                    (len(self.vertices[edge[0]].ownCells) > 2 or  \n                                    len(self.vertices[edge[-1]].ownCells) > 2)]",
   "        self.internal_big_edges = [self.big_edges[eid] for eid, edge in enumerate(self.big_edges_list) \n                                    if eid not in self.external_edges_id and \n                                    (len(self.vertices[edge[0]].ownCells) > 2 or  \n                                    len(self.vertices[edge[-1]].ownCells) >= 2)]")],
 # ---- C09
 "C09/del-skips-remove": [("forsys/edge.py",
   "    def __del__(self):\n        for v in self.verticesArray:\n            if self.id in v.ownEdges:\n                v.remove_edge(self.id)",
   "    def __del__(self):\n        for v in self.verticesArray[:1]:\n            if self.id in v.ownEdges:\n                v.remove_edge(self.id)")],
 # ---- C10
 "C10/tension-not-rewritten": [("forsys/fmatrix.py",
   "            for e in edges_to_use:\n                self.frame.edges[e].tension = float(xres[index])\n",
   "            for e in edges_to_use:\n                if self.frame.edges[e].tension == 0 or solver_method != \"lsq_linear\":\n                    self.frame.edges[e].tension = float(xres[index])\n")],
 # ---- C11
 "C11/index-round": [("forsys/virtual_edges.py",
   "                    nEdge.append(e[int(each * i)])",
   "                    nEdge.append(e[int(round(each * i))])")],
 # ---- C12
 "C12/no-taken-check": [("forsys/time_series.py",
   "            for v1 in reversed(pool.values()):\n                # make the map inyective\n                if v1.id not in found:",
   "            for v1 in reversed(pool.values()):\n                # make the map inyective\n                if True:")],
 # ---- C14
 "C14/negative-ref-swap": [("forsys/surface_evolver.py",
   "            vlist = [edges[abs(e)].v1 if e > 0 else edges[abs(e)].v2 for e in r.edges]",
   "            vlist = [edges[abs(e)].v1 if (e > 0 or len(r.edges) > 40) else edges[abs(e)].v2 for e in r.edges]")],
 # ---- C16
 "C16/and-to-or": [("forsys/fmatrix.py",
   "        for _, big_edge in enumerate(big_edges_vertices):\n            if (big_edge[0] in self.deletes) and (big_edge[-1] in self.deletes):\n                big_edges_to_use.remove(big_edge)",
   "        for _, big_edge in enumerate(big_edges_vertices):\n            if ((big_edge[0] in self.deletes) and (big_edge[-1] in self.deletes)) or (len(self.deletes) > 6 and big_edge[0] in self.deletes and len(big_edge) == 2):\n                big_edges_to_use.remove(big_edge)")],
 # ---- C17
 "C17/mean-vs-median": [("forsys/myosin.py",
   "            intensity_to_use = np.mean(list(map(np.median,\n                                                intensities_per_edge)))",
   "            intensity_to_use = np.mean(list(map(np.median if layers < 3 else np.mean,\n                                                intensities_per_edge)))")],
 # ---- C18
 "C18/asym": [("forsys/stress_tensor.py",
   "            sigmas[f\"{row}{column}\"] = np.array([[sigma_xx, sigma_xy], [sigma_xy, sigma_yy]], dtype=float)",
   "            sigmas[f\"{row}{column}\"] = np.array([[sigma_xx, sigma_xy], [sigma_xy * (1 if grid < 7 else 0.999), sigma_yy]], dtype=float)")],
 # ---- C19
 "C19/round-2": [("forsys/tessellation.py",
   "                x_coordinate = np.around(np.linspace(round(tessellation.vertices[c[ii]][0], 3),",
   "                x_coordinate = np.around(np.linspace(round(tessellation.vertices[c[ii]][0], 3 if len(c) < 8 else 2),")],
 # ---- C20
 "C20/abs-area": [("forsys/cell.py",
   "        return self.vertices[(self.vertices.index(v) - self.get_area_sign())% len(self.vertices)]",
   "        return self.vertices[(self.vertices.index(v) - (self.get_area_sign() if len(self.vertices) != 7 else 1))% len(self.vertices)]")],
 # ---- C15
 "C15/mirror-skip": [("forsys/skeleton.py",
   "                if self.mirror_y:\n                    coords[1] = self.max_y - coords[1]",
   "                if self.mirror_y and len(self.contours) < 25:\n                    coords[1] = self.max_y - coords[1]")],
 # ---- C06
 "C06/velocity-not-normalised": [("forsys/fmatrix.py",
   "            average_velocity = np.mean([np.linalg.norm(vector) for vector in vector_of_vectors])",
   "            average_velocity = np.mean([np.linalg.norm(vector) for vector in vector_of_vectors]) if self.frame.time < 100 else 1.0")],
}
