"""Builds forsys time series (dict of Frames) from a list of abstract tissues, each frame realised independently."""
import numpy as np
from fv.gen import realise, series


class Series:
    pass


def build(rng, ats, times, k=2, relabel=True, same_k=True, jitter=0.0):
    from forsys import frames
    s = Series()
    s.ats, s.times = ats, list(times)
    s.rs, s.frames = [], {}
    ks = None
    for t, at in enumerate(ats):
        if same_k and ks is not None:
            kk = {key: ks.get(key, 2) for key in at.E}
        else:
            kk = k
        r = realise.realise(at, k=kk, rng=rng, relabel=relabel, shifts=relabel, flips="random" if relabel else None,
                            edge_dirs=relabel, cell_order=relabel, id_base=int(rng.integers(0, 500)) if relabel else 0,
                            jitter=jitter)
        if ks is None:
            ks = dict(r.ks)
        s.rs.append(r)
        s.frames[t] = frames.Frame(t, r.vertices, r.edges, r.cells, time=float(times[t]))
    return s


def truth_map(s, t0, t1):
    """true successor map between frames: vertex id at t0 -> vertex id at t1 for every common junction"""
    a, b = s.rs[t0].jmap, s.rs[t1].jmap
    return {a[j]: b[j] for j in a if j in b}


def random_series(rng, at0, nframes, kinds=("random", "affine", "flow"), frac=0.6, drop_border_cell=False, wide=False):
    """frames within the C12 motion bounds (re-evaluated on every consecutive pair); wide=True: coherent fields (drift) that
    use up to 85 % of the bounds (relevant for small tissues, where half the junction spacing exceeds 8 % of the extent)"""
    ats = [at0]
    for t in range(1, nframes):
        cur = ats[-1]
        amp = series.amplitude(cur, frac=frac, wide=wide)
        if wide:
            kinds = ("drift", "drift", "affine")
        d = series.field(rng, cur, kinds[int(rng.integers(len(kinds)))], amp)
        nxt = series.moved(cur, d)
        ats.append(nxt)
    return ats
