"""G-RASTER: rasterised Voronoi tissues as skeleton images (white one-pixel lines on black, framed by the one-pixel
white border that the parser crops), optionally cleaned to minimal 8-connectivity; O-RASTER region oracle."""
import numpy as np
import scipy.ndimage as ndi
import scipy.spatial as sp


def thin(img):
    """Zhang-Suen thinning followed by removal of redundant staircase pixels -> minimal 8-connected skeleton"""
    im = img.astype(np.uint8).copy()

    def neighbours(im):
        p = np.pad(im, 1)
        return (p[:-2, 1:-1], p[:-2, 2:], p[1:-1, 2:], p[2:, 2:], p[2:, 1:-1], p[2:, :-2], p[1:-1, :-2], p[:-2, :-2])
    changed = True
    while changed:
        changed = False
        for step in (0, 1):
            P2, P3, P4, P5, P6, P7, P8, P9 = neighbours(im)
            B = P2 + P3 + P4 + P5 + P6 + P7 + P8 + P9
            seq = [P2, P3, P4, P5, P6, P7, P8, P9, P2]
            A = sum(((seq[i] == 0) & (seq[i + 1] == 1)).astype(np.uint8) for i in range(8))
            if step == 0:
                c = (P2 * P4 * P6 == 0) & (P4 * P6 * P8 == 0)
            else:
                c = (P2 * P4 * P8 == 0) & (P2 * P6 * P8 == 0)
            rm = (im == 1) & (B >= 2) & (B <= 6) & (A == 1) & c
            if rm.any():
                im[rm] = 0
                changed = True
    H, W = im.shape
    changed = True
    while changed:
        changed = False
        ys, xs = np.nonzero(im)
        for y, x in zip(ys, xs):
            if y < 1 or x < 1 or y >= H - 1 or x >= W - 1 or not im[y, x]:
                continue
            v = [im[y - 1, x], im[y, x + 1], im[y + 1, x], im[y, x - 1]]
            for i in range(4):
                if v[i] and v[(i + 1) % 4]:
                    nb = im[y - 1:y + 2, x - 1:x + 2].copy()
                    nb[1, 1] = 0
                    _, n = ndi.label(nb, structure=np.ones((3, 3)))
                    bg0 = (im[y - 1:y + 2, x - 1:x + 2] == 0).astype(np.uint8)
                    _, nb_bg0 = ndi.label(bg0)
                    bg = bg0.copy()
                    bg[1, 1] = 1
                    _, nb_bg = ndi.label(bg)
                    if n == 1 and nb_bg <= nb_bg0 and nb_bg == nb_bg0 + (0 if bg0.sum() > 0 else 1):
                        im[y, x] = 0
                        changed = True
                    break
    return im.astype(bool)


def _line(img, p, q):
    """8-connected one-pixel line (Bresenham)"""
    x0, y0 = int(p[0]), int(p[1])
    x1, y1 = int(q[0]), int(q[1])
    dx, dy = abs(x1 - x0), -abs(y1 - y0)
    sx = 1 if x0 < x1 else -1
    sy = 1 if y0 < y1 else -1
    err = dx + dy
    while True:
        img[y0, x0] = 1
        if x0 == x1 and y0 == y1:
            break
        e2 = 2 * err
        if e2 >= dy:
            err += dy
            x0 += sx
        if e2 <= dx:
            err += dx
            y0 += sy


def voronoi_image(rng, ncells=20, clean=True, px_per_cell=None, min_ridge=9, min_angle_deg=25, tries=400, lumen=0, ring=False):
    """returns (uint8 image with frame, info). info: cells (site ids), adjacency pairs with an interior junction, border"""
    px = px_per_cell or float(rng.uniform(35, 90))
    for _ in range(tries):
        side = int(np.ceil(np.sqrt(ncells))) + 2
        pts = np.array([((i + 0.5 * (j % 2)) * px + px, (j * 0.866) * px + px) for i in range(side + 1)
                        for j in range(side + 2)])
        pts = pts + rng.normal(0, rng.uniform(0.04, 0.13) * px, pts.shape)
        W = int(pts[:, 0].max() + px)
        H = int(pts[:, 1].max() + px)
        pad = 0.6 * px
        vor = sp.Voronoi(pts)
        keep = []
        for pi, ri in enumerate(vor.point_region):
            reg = vor.regions[ri]
            if len(reg) == 0 or -1 in reg:
                continue
            P = vor.vertices[reg]
            if (P < pad).any() or (P[:, 0] > W - pad).any() or (P[:, 1] > H - pad).any():
                continue
            keep.append(pi)
        if len(keep) < 4:
            continue
        if len(keep) > ncells:
            # a compact connected subset: the ncells sites closest to the centroid of the kept ones
            c = pts[keep].mean(axis=0)
            keep = sorted(keep, key=lambda i: np.hypot(*(pts[i] - c)))[:ncells]
        keepset = set(keep)
        ridges = {}
        for (p, q), rv in zip(vor.ridge_points, vor.ridge_vertices):
            if -1 in rv:
                continue
            if p in keepset or q in keepset:
                ridges[frozenset(int(x) for x in rv)] = (int(p), int(q))
        V = np.rint(vor.vertices).astype(int)
        ok = True
        for r in ridges:
            a, b = tuple(r)
            if np.hypot(*(vor.vertices[a] - vor.vertices[b])) < min_ridge:
                ok = False
                break
        if not ok:
            continue
        # junction angles
        inc = {}
        for r in ridges:
            a, b = tuple(r)
            inc.setdefault(a, []).append(b)
            inc.setdefault(b, []).append(a)
        for a, nb in inc.items():
            if len(nb) < 2:
                continue
            ang = sorted(np.arctan2(*(vor.vertices[b] - vor.vertices[a])[::-1]) for b in nb)
            d = np.diff(ang + [ang[0] + 2 * np.pi])
            if len(nb) >= 3 and np.degrees(d.min()) < min_angle_deg:
                ok = False
                break
        if not ok:
            continue
        lumen_cells = set()
        if lumen:
            # a lumen: a connected cluster of interior cells whose common walls are not drawn (one enclosed region many
            # times larger than a cell)
            nb = {c: set() for c in keep}
            interior = set(keep)
            for (p, q) in ridges.values():
                if p in keepset and q in keepset:
                    nb[p].add(q)
                    nb[q].add(p)
                else:
                    interior.discard(p)
                    interior.discard(q)
            if not interior:
                continue
            c0 = pts[sorted(interior)].mean(axis=0)
            start = min(sorted(interior), key=lambda i: np.hypot(*(pts[i] - c0)))
            lumen_cells, frontier = {start}, [start]
            while frontier and len(lumen_cells) < lumen:
                x = frontier.pop(0)
                for y in sorted(nb[x]):
                    if y in interior and y not in lumen_cells and len(lumen_cells) < lumen:
                        lumen_cells.add(y)
                        frontier.append(y)
            if len(lumen_cells) < lumen:
                continue
        img = np.zeros((H + 2, W + 2), np.uint8)
        for r, (p, q) in ridges.items():
            if p in lumen_cells and q in lumen_cells:
                continue
            a, b = tuple(r)
            _line(img, V[a] + 1, V[b] + 1)
        if ring:
            # debris: a free closed ring below the tissue, sharing no pixel with it (canvas extended downwards)
            extra = int(1.3 * px)
            img = np.vstack([img, np.zeros((extra, img.shape[1]), np.uint8)])
            cx, cy, rad = img.shape[1] / 2.0, H + 2 + 0.65 * px, 0.35 * px
            nseg = int(rng.integers(5, 9))
            a0 = rng.uniform(0, 2 * np.pi)
            pr = [np.rint([cx + rad * np.cos(a0 + 2 * np.pi * i / nseg), cy + rad * np.sin(a0 + 2 * np.pi * i / nseg)]).astype(int)
                  for i in range(nseg)]
            for i in range(nseg):
                _line(img, pr[i], pr[(i + 1) % nseg])
        if clean:
            img = thin(img.astype(bool)).astype(np.uint8)
        # connectivity of the kept cells (as a ridge-connected set) is needed for a tissue
        adj = {c: set() for c in keep}
        for r, (p, q) in ridges.items():
            if p in keepset and q in keepset:
                adj[p].add(q)
                adj[q].add(p)
        seen, st = {keep[0]}, [keep[0]]
        while st:
            x = st.pop()
            for y in adj[x]:
                if y not in seen:
                    seen.add(y)
                    st.append(y)
        if len(seen) != len(keep):
            continue
        # frame
        img[0, :] = img[-1, :] = 1
        img[:, 0] = img[:, -1] = 1
        # Voronoi-side truth
        jcells = {}
        for c in keep:
            for v in vor.regions[vor.point_region[c]]:
                jcells.setdefault(v, set()).add(c)
        internal = set()
        for r, (p, q) in ridges.items():
            if p in keepset and q in keepset:
                a, b = tuple(r)
                if len(jcells.get(a, ())) >= 3 or len(jcells.get(b, ())) >= 3:
                    internal.add(frozenset((p, q)))
        border = {c for c in keep if any((p == c and q not in keepset) or (q == c and p not in keepset)
                                         for (p, q) in ridges.values())}
        info = {"cells": sorted(keep), "internal_pairs": internal, "border": border, "sites": {c: pts[c] + 1 for c in keep},
                "n_junctions3": sum(1 for v, cs in jcells.items() if len(cs) >= 3), "shape": img.shape, "px": px,
                "lumen": sorted(lumen_cells)}
        return (img * 255).astype(np.uint8), info
    raise RuntimeError("no raster generated")


def save(img, path):
    from PIL import Image
    Image.fromarray(np.stack([img] * 3, axis=-1)).save(path)


def regions(img):
    """O-RASTER: enclosed regions = 4-connected background components of the framed image that do not touch the
    outside (the component adjacent to the frame); adjacency through line pixels."""
    a = (np.asarray(img) > 0)
    bg = ~a
    lab, n = ndi.label(bg)          # 4-connectivity
    # outside = the component touching the inner side of the frame
    inner = lab[1:-1, 1:-1]
    outside = set(np.unique(np.concatenate([inner[0], inner[-1], inner[:, 0], inner[:, -1]]))) - {0}
    return lab, n, outside
