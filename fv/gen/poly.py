"""G-POLY: random simple polygons (convex, star-shaped, non-convex), returned counter-clockwise as complex arrays."""
import numpy as np


def _cross(o, a, b):
    return ((a - o).conjugate() * (b - o)).imag


def _intersect(p1, p2, p3, p4):
    d1 = _cross(p3, p4, p1)
    d2 = _cross(p3, p4, p2)
    d3 = _cross(p1, p2, p3)
    d4 = _cross(p1, p2, p4)
    return (d1 * d2 < 0) and (d3 * d4 < 0)


def is_simple(z):
    n = len(z)
    for i in range(n):
        for j in range(i + 2, n):
            if i == 0 and j == n - 1:
                continue
            if _intersect(z[i], z[(i + 1) % n], z[j], z[(j + 1) % n]):
                return False
    return True


def shoelace(z):
    """standard signed area: positive for counter-clockwise in a y-up frame"""
    z = np.asarray(z)
    return 0.5 * float(np.sum((z.conjugate() * np.roll(z, -1)).imag))


def perimeter(z):
    z = np.asarray(z)
    return float(np.sum(np.abs(np.roll(z, -1) - z)))


def polygon(rng, kind, n):
    if kind == "convex":
        for _ in range(50):
            pts = rng.normal(size=(max(4 * n, 12), 2))
            import scipy.spatial as sp
            h = sp.ConvexHull(pts)
            idx = list(h.vertices)
            if len(idx) >= 3:
                idx = idx[:max(3, min(n, len(idx)))]
                z = pts[idx, 0] + 1j * pts[idx, 1]
                if len(z) >= 3 and shoelace(z) != 0:
                    break
        ang = np.angle(z - z.mean())
        z = z[np.argsort(ang)]
    elif kind == "star":
        ang = np.sort(rng.uniform(0, 2 * np.pi, n))
        for _ in range(50):
            if n < 2 or np.min(np.diff(np.concatenate([ang, [ang[0] + 2 * np.pi]]))) > 1e-3:
                break
            ang = np.sort(rng.uniform(0, 2 * np.pi, n))
        r = rng.uniform(0.25, 1.0, n)
        z = r * np.exp(1j * ang)
        # a star polygon is simple iff consecutive angular gaps are < pi
        if np.max(np.diff(np.concatenate([ang, [ang[0] + 2 * np.pi]]))) >= np.pi:
            return polygon(rng, kind, n)
    elif kind == "nonconvex":
        pts = rng.uniform(-1, 1, (n, 2))
        z = pts[:, 0] + 1j * pts[:, 1]
        z = z[np.argsort(np.angle(z - z.mean()))]
        z = z * (1 + 0.0)
        # random tour then 2-opt untangling
        z = z[rng.permutation(n)]
        for _ in range(200 * n):
            changed = False
            m = len(z)
            for i in range(m):
                for j in range(i + 2, m):
                    if i == 0 and j == m - 1:
                        continue
                    if _intersect(z[i], z[(i + 1) % m], z[j], z[(j + 1) % m]):
                        z[i + 1:j + 1] = z[i + 1:j + 1][::-1].copy()
                        changed = True
            if not changed:
                break
        if not is_simple(z):
            return polygon(rng, "star", n)
    else:
        raise ValueError(kind)
    if shoelace(z) < 0:
        z = z[::-1].copy()
    return z
