"""G-SE: independent Surface Evolver dump serialiser, laid out like the shipped dumps.

`dump_from_tissue` turns an abstract tissue realisation plan into plain records (V, Ed, F, B) with arbitrary ids;
`write_dump` serialises them.  The records are the round-trip oracle for C14."""
import numpy as np

HEADER = """// synthetic dump written by fv.gen.se

// datafilename: synthetic.fe
vertices_predicted      {nv}
edges_predicted         {ne}
facets_predicted         {nf}
bodies_predicted         {nf}
// Total energy: 1.0
SPACE_DIMENSION 2
STRING

LINEAR

SCALE: 0.005     FIXED

"""


def fmt(x, style):
    if style == "repr":
        return repr(float(x))
    if style == "fixed":
        return f"{x:.12f}"
    if style == "sci":
        return f"{x:.10e}"
    return f"{x:.15g}"


def write_dump(path, V, Ed, F, B, wrap=10, area_own_line=False, original=False, numstyle="g", body_sign=None):
    """V {id:(x,y)}; Ed {id:(v1,v2,density|None)}; F {id:[signed edge ids]}; B [(body id, pressure)] in face order"""
    L = [HEADER.format(nv=len(V), ne=len(Ed), nf=len(F))]
    L.append("vertices        /*  coordinates  */    \n")
    for vid, (x, y) in V.items():
        L.append(f"{vid:3d}   {fmt(x, numstyle)}  {fmt(y, numstyle)}\n")
    L.append("\n")
    L.append("edges  \n")
    for eid, (a, b, d) in Ed.items():
        s = f"{eid:3d}     {a:3d}  {b:3d}   "
        if d is not None:
            s += f"   density {fmt(d, 'g')} "
        if original:
            s += f" original {eid}"
        L.append(s + "\n")
    L.append("\n")
    L.append("faces    /* edge loop */      \n")
    for fid, loop in F.items():
        toks = [str(e) for e in loop]
        w = wrap if isinstance(wrap, int) else int(wrap(fid))
        lines = [toks[i:i + w] for i in range(0, len(toks), w)]
        out = f"{fid:3d}   "
        for i, ch in enumerate(lines):
            if i > 0:
                out += "               "
            out += " ".join(ch)
            if i < len(lines) - 1:
                out += " \\\n"
        if area_own_line or (isinstance(area_own_line, float)):
            out += " \\\n               /*area -500*/\n"
        else:
            out += " /*area -500*/\n"
        L.append(out)
    L.append("\n")
    L.append("bodies  /* facets */\n")
    for i, (bid, p) in enumerate(B):
        sgn = -bid if body_sign is None else body_sign[i] * bid
        L.append(f"{bid:3d}       {sgn}  volume 500  /*actual: 500.000000000001*/ lagrange_multiplier {fmt(p, 'g')}  centerofmass \n")
    L.append("\n")
    L.append("read\n")
    L.append('ff := "synthetic.dmp"\n\nshow_all_edges off\n')
    with open(path, "w") as f:
        f.write("".join(L))


def records_from_tissue(rng, at, k=(0, 5), id_gaps=True, density="all", orphans=0, coord_scale=1.0, neg_refs=True):
    """plain dump records for an abstract tissue.
    density: 'all' | 'none' | 'mixed';  orphans: number of extra unattached vertices (+ edges among them)"""
    pos = []
    jidx = {}
    for j in sorted(at.J):
        jidx[j] = len(pos)
        pos.append(at.J[j] * coord_scale)
    chains = {}
    for key in sorted(at.E, key=sorted):
        a, b = at.ends(key)
        n = int(rng.integers(k[0], k[1] + 1)) if isinstance(k, tuple) else int(k)
        ids = []
        for s in np.linspace(0, 1, n + 2)[1:-1]:
            ids.append(len(pos))
            pos.append(at.arc_point(key, float(s)) * coord_scale)
        chains[key] = [jidx[a]] + ids + [jidx[b]]
    nv = len(pos)
    if id_gaps:
        vlab = sorted(int(x) for x in rng.choice(np.arange(1, 2 * nv + 10), size=nv, replace=False))
        vlab = [vlab[i] for i in rng.permutation(nv)]
    else:
        vlab = list(range(1, nv + 1))
    V = {}
    order = list(range(nv))
    for i in order:
        V[vlab[i]] = (float(pos[i].real), float(pos[i].imag))
    segs = []
    for key, ch in chains.items():
        for p, q in zip(ch[:-1], ch[1:]):
            segs.append((key, p, q))
    ne = len(segs)
    if id_gaps:
        elab = [int(x) for x in rng.choice(np.arange(1, 2 * ne + 10), size=ne, replace=False)]
    else:
        elab = list(range(1, ne + 1))
    Ed = {}
    seg_id = {}
    dens_of_key = {key: float(np.round(rng.uniform(0.5, 1.5), 3)) for key in chains}
    if elab and elab[0] % 3 == 0:
        # a density of exactly zero is a value like any other (an interface without tension); chosen from numbers already drawn
        zr = np.random.default_rng([elab[0], ne, 14])
        for key in list(dens_of_key):
            if zr.random() < 0.2:
                dens_of_key[key] = 0.0
    for i, (key, p, q) in enumerate(segs):
        if neg_refs and rng.random() < 0.5:
            p, q = q, p
        if density == "all":
            d = dens_of_key[key]
        elif density == "none":
            d = None
        else:
            d = dens_of_key[key] if rng.random() < 0.6 else None
        Ed[elab[i]] = (vlab[p], vlab[q], d)
        seg_id[frozenset((p, q))] = elab[i]
    F = {}
    cids = sorted(at.cells)
    flab = {c: i + 1 for i, c in enumerate(cids)}
    if id_gaps:
        fl = sorted(int(x) for x in rng.choice(np.arange(1, 2 * len(cids) + 5), size=len(cids), replace=False))
        if len(fl) > 1 and fl[0] % 5 < 2:
            # faces (and their bodies, in the same order) need not be written in ascending id order; decided from the ids
            # already drawn so that the random stream of the callers does not change
            pr = np.random.default_rng([fl[0], len(fl), 14]).permutation(len(fl))
            fl = [fl[i] for i in pr]
        flab = {c: fl[i] for i, c in enumerate(cids)}
    cyc_v = {}
    for c in cids:
        cyc = at.cells[c]
        vl = []
        for a, b in zip(cyc, cyc[1:] + cyc[:1]):
            ch = chains[frozenset((a, b))]
            if ch[0] != jidx[a]:
                ch = ch[::-1]
            vl += ch[:-1]
        if rng.random() < 0.5:
            vl = vl[::-1]
        s = int(rng.integers(len(vl)))
        vl = vl[s:] + vl[:s]
        loop = []
        for p, q in zip(vl, vl[1:] + vl[:1]):
            eid = seg_id[frozenset((p, q))]
            a0, b0, _ = Ed[eid]
            loop.append(eid if a0 == vlab[p] else -eid)
        F[flab[c]] = loop
        cyc_v[flab[c]] = [vlab[i] for i in vl]
    B = [(flab[c], float(np.round(rng.normal(0, 0.05), 6))) for c in cids]
    # orphans: vertices (and edges between them) that belong to no face
    nxt_v = max(V) + 1
    nxt_e = max(Ed) + 1
    orphan_v, orphan_e = [], []
    for i in range(orphans):
        V[nxt_v + i] = (float(rng.uniform(-5, 5)), float(rng.uniform(-5, 5)))
        orphan_v.append(nxt_v + i)
    for i in range(orphans - 1):
        Ed[nxt_e + i] = (orphan_v[i], orphan_v[i + 1], 1.0 if density != "none" else None)
        orphan_e.append(nxt_e + i)
    if orphans and rng.random() < 0.5:
        # an orphan edge hanging off a real vertex: the edge is dropped with its orphan end, the real vertex stays
        real = vlab[0]
        Ed[nxt_e + orphans] = (real, orphan_v[0], 1.0 if density != "none" else None)
        orphan_e.append(nxt_e + orphans)
    return {"V": V, "Ed": Ed, "F": F, "B": B, "cycles": cyc_v, "orphan_v": orphan_v, "orphan_e": orphan_e,
            "dens_of_key": dens_of_key}
