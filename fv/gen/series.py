"""G-SERIES: time series of one tissue as a list of abstract tissues with the same topology (junction ids are the truth
successor map), displacement fields, the motion bounds of C12, and mechanical stepping for C03."""
import numpy as np


def end_points(at):
    """junctions that are interface end points of the mesh (three or more interfaces)"""
    ji = at.jifaces()
    return sorted(j for j in at.J if len(ji[j]) >= 3)


def field(rng, at, kind, amp):
    """displacement per junction, |d| <= amp"""
    zs = at.J
    c = at.centroid()
    d = {}
    if kind == "random":
        for j in zs:
            v = complex(*rng.normal(0, 1, 2))
            v = v / max(abs(v), 1e-12) * amp * rng.uniform(0.2, 1.0)
            d[j] = v
    elif kind == "affine":
        ext = at.bbox_diam()
        A = (rng.normal(0, 1) + 1j * rng.normal(0, 1)) * amp / ext         # rotation + dilation
        B = (rng.normal(0, 1) + 1j * rng.normal(0, 1)) * amp / ext         # shear part (conjugate-linear)
        t = complex(*rng.normal(0, 0.3, 2)) * amp
        raw = {j: A * (z - c) + B * np.conj(z - c) + t for j, z in zs.items()}
        m = max(abs(v) for v in raw.values())
        d = {j: v * (amp * 0.95 / m) for j, v in raw.items()}
    elif kind == "drift":
        # the whole tissue drifts (plus a little internal motion): large displacements, unchanged shape
        t = amp * 0.9 * np.exp(1j * rng.uniform(0, 2 * np.pi))
        d = {j: t + 0.05 * amp * complex(*rng.normal(0, 1, 2)) for j in zs}
    elif kind == "flow":
        ext = at.bbox_diam()
        kx, ky = rng.uniform(0.5, 2.5, 2) * 2 * np.pi / ext
        ph = rng.uniform(0, 2 * np.pi, 2)
        raw = {j: complex(np.sin(ky * z.imag + ph[0]), np.sin(kx * z.real + ph[1])) for j, z in zs.items()}
        m = max(abs(v) for v in raw.values())
        d = {j: v * (amp * 0.95 / m) for j, v in raw.items()}
    else:
        raise ValueError(kind)
    return d


def moved(at, d, new_phi=None):
    t = at.copy()
    for j in t.J:
        t.J[j] = at.J[j] + d.get(j, 0)
    if new_phi is not None:
        t.PHI = dict(new_phi)
    return t


def motion_bounds(at0, at1, shift0=0j, shift1=0j, margin=0.9):
    """the quantities of C12's pre-condition, evaluated on the interface end points of both frames.
    returns dict(move, half_spacing, extent, box_change) and ok (strictly inside with factor `margin`)"""
    e0, e1 = end_points(at0), end_points(at1)
    common = [j for j in e0 if j in at1.J]
    z0 = np.array([at0.J[j] + shift0 for j in e0])
    z1 = np.array([at1.J[j] + shift1 for j in e1])
    move = max((abs(at1.J[j] + shift1 - at0.J[j] - shift0) for j in common), default=0.0)

    def minsp(z):
        if len(z) < 2:
            return np.inf
        d = np.abs(z[:, None] - z[None, :])
        d[np.diag_indices(len(z))] = np.inf
        return d.min()
    spacing = min(minsp(z0), minsp(z1))
    allz = np.concatenate([z0, z1])
    extent = max(allz.real.max() - allz.real.min(), allz.imag.max() - allz.imag.min())
    box = np.hypot((z1.real.max() - z1.real.min()) - (z0.real.max() - z0.real.min()),
                   (z1.imag.max() - z1.imag.min()) - (z0.imag.max() - z0.imag.min()))
    q = {"move": float(move), "half_spacing": float(0.5 * spacing), "extent": float(extent), "box_change": float(box)}
    ok = move < margin * 0.5 * spacing and move < margin * 0.08 * extent and box < margin * 0.10 * extent
    return q, bool(ok)


def amplitude(at, frac=0.6, wide=False):
    """largest displacement that keeps the C12 bounds with a margin; wide=True goes up to 85 % of the bounds themselves
    (half the smallest junction spacing, 8 % of the extent)"""
    e = end_points(at)
    z = np.array([at.J[j] for j in e])
    d = np.abs(z[:, None] - z[None, :])
    d[np.diag_indices(len(z))] = np.inf
    ext = max(z.real.max() - z.real.min(), z.imag.max() - z.imag.min())
    if wide:
        return 0.85 * min(0.5 * d.min(), 0.08 * ext)
    return frac * min(0.25 * d.min(), 0.04 * ext)


def resultants(at, T):
    """net pull on every junction: sum over its interfaces of tension x analytic unit tangent"""
    F = {j: 0j for j in at.J}
    for k, t in T.items():
        if t == 0:
            continue
        a, b = at.ends(k)
        F[a] += t * at.tangent(k, a)
        F[b] += t * at.tangent(k, b)
    return F


def slip_field(rng, at, frac, normal=None, through=None):
    """two rigid parts sliding past each other, both moving by frac x (the C12 bound): the part on the positive side of the
    line moves straight towards the line, the other one away from it at 45 degrees.  Seen from a junction next to the line
    its own successor (distance m) and the successor of its neighbour across the line (distance spacing - m) are nearly
    equally far: a near-tie for the nearest-neighbour search in every orientation, and a tie-break that depends on the
    metric when the line is parallel to a coordinate axis."""
    e = end_points(at)
    z = np.array([at.J[j] for j in e])
    d = np.abs(z[:, None] - z[None, :])
    d[np.diag_indices(len(z))] = np.inf
    ext = max(z.real.max() - z.real.min(), z.imag.max() - z.imag.min())
    m = frac * min(0.5 * d.min(), 0.08 * ext)
    n = normal if normal is not None else np.exp(1j * rng.uniform(0, 2 * np.pi))
    p0 = through if through is not None else at.centroid()
    sg = 1 if rng.random() < 0.5 else -1
    if rng.random() < 0.5:
        n = -n
    a = -m * n
    b = -m * n * np.exp(1j * sg * np.pi / 4)
    return {j: (a if ((zz - p0) * np.conj(n)).real > 0 else b) for j, zz in at.J.items()}
