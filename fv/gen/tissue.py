"""Abstract tissues (pure data, no forsys import) and their shaping.

An abstract tissue ``AT`` is:  J {jid: complex}  junction positions,
                               E {frozenset({a,b}): [cell ids]}  interfaces (ridges) with the 1 or 2 cells they bound,
                               cells {cid: [jid, ...]}  junction cycles (counter-clockwise in a y-up frame),
                               sites {cid: complex},  T {key: float} truth tensions (Maxwell reciprocal: site distance),
                               PHI {key: float}  bulge angle: the interface from a=min(key) to b=max(key) is the circular
                                                 arc whose tangent at a is the chord direction rotated by PHI (0 = straight).
Everything the oracles need (analytic tangents, curvature, turning) follows from (J, PHI) in closed form.
"""
import copy
import numpy as np
import scipy.spatial as sp


class AT:
    def __init__(self, J, E, cells, sites=None, T=None, PHI=None, meta=None):
        self.J, self.E, self.cells = J, E, cells
        self.sites = sites or {}
        self.T = T or {}
        self.PHI = PHI or {k: 0.0 for k in E}
        self.meta = meta or {}

    def copy(self):
        return copy.deepcopy(self)

    # ---------------- analytic geometry -----------------
    def ends(self, key):
        a, b = sorted(key)
        return a, b

    def tangent(self, key, at):
        """unit tangent (complex) of interface `key` at junction `at`, pointing from the junction along it"""
        a, b = self.ends(key)
        u = (self.J[b] - self.J[a])
        u = u / abs(u)
        phi = self.PHI[key]
        if at == a:
            return u * np.exp(1j * phi)
        return -u * np.exp(-1j * phi)

    def arc_point(self, key, s):
        """point at arc-length fraction s in [0,1] from a=min(key) to b=max(key)"""
        a, b = self.ends(key)
        za, zb = self.J[a], self.J[b]
        phi = self.PHI[key]
        if abs(phi) < 1e-13:
            return za + s * (zb - za)
        c = zb - za
        L = abs(c)
        u = c / L
        # = za + u R i (e^{i(phi - 2 phi s)} - e^{i phi}) with R = L / (2 sin phi), written without the difference of two nearly
        # equal exponentials (for a bulge of 1e-8 that difference cost eight digits of the sagitta)
        return za + u * L * (np.sin(phi * s) / np.sin(phi)) * np.exp(1j * phi * (1 - s))

    def arc_length(self, key):
        a, b = self.ends(key)
        L = abs(self.J[b] - self.J[a])
        phi = self.PHI[key]
        return L if abs(phi) < 1e-13 else L * phi / np.sin(phi)

    def turning(self, key):
        """signed total turning (ccw positive) going from a to b"""
        return -2.0 * self.PHI[key]

    def curvature(self, key):
        return self.turning(key) / self.arc_length(key)

    def centre(self, key):
        a, b = self.ends(key)
        phi = self.PHI[key]
        if abs(phi) < 1e-13:
            return None
        za, zb = self.J[a], self.J[b]
        c = zb - za
        L = abs(c)
        u = c / L
        R = L / (2 * np.sin(phi))
        # tangent at a is u e^{i phi}; turning clockwise for phi>0 -> centre to the right of the tangent
        return za + R * (-1j) * u * np.exp(1j * phi)

    # ---------------- topology -----------------
    def jcells(self):
        m = {j: set() for j in self.J}
        for c, cyc in self.cells.items():
            for j in cyc:
                m[j].add(c)
        return m

    def jifaces(self):
        m = {j: [] for j in self.J}
        for k in self.E:
            for j in k:
                m[j].append(k)
        return m

    def bbox_diam(self):
        z = np.array(list(self.J.values()))
        return max(z.real.max() - z.real.min(), z.imag.max() - z.imag.min())

    def centroid(self):
        return np.mean(list(self.J.values()))

    def min_ridge(self):
        return min(abs(self.J[max(k)] - self.J[min(k)]) for k in self.E)

    def sub(self, keep):
        """sub-tissue on the cell subset `keep`"""
        keep = set(keep)
        cells = {c: list(cyc) for c, cyc in self.cells.items() if c in keep}
        used = {j for cyc in cells.values() for j in cyc}
        E = {}
        for k, cs in self.E.items():
            cc = [c for c in cs if c in keep]
            if cc:
                E[k] = cc
        return AT({j: self.J[j] for j in used}, E, cells, {c: self.sites[c] for c in cells if c in self.sites},
                  {k: self.T[k] for k in E if k in self.T}, {k: self.PHI[k] for k in E}, dict(self.meta))

    def cell_adjacency(self):
        adj = {c: set() for c in self.cells}
        for k, cs in self.E.items():
            if len(cs) == 2:
                adj[cs[0]].add(cs[1])
                adj[cs[1]].add(cs[0])
        return adj

    def components(self, subset=None):
        adj = self.cell_adjacency()
        todo = set(self.cells if subset is None else subset)
        comps = []
        while todo:
            s = todo.pop()
            comp, st = {s}, [s]
            while st:
                x = st.pop()
                for y in adj[x]:
                    if y in todo:
                        todo.discard(y)
                        comp.add(y)
                        st.append(y)
            comps.append(comp)
        return comps

    # ---------------- transforms -----------------
    def similarity(self, scale=1.0, theta=0.0, shift=0j, reflect=False):
        t = self.copy()
        f = scale * np.exp(1j * theta)
        for j, z in t.J.items():
            zz = np.conj(z) if reflect else z
            t.J[j] = f * zz + shift
        for c, z in t.sites.items():
            zz = np.conj(z) if reflect else z
            t.sites[c] = f * zz + shift
        if reflect:
            t.PHI = {k: -v for k, v in t.PHI.items()}
            t.cells = {c: cyc[::-1] for c, cyc in t.cells.items()}   # keep cycles counter-clockwise
        t.T = dict(self.T)
        return t

    def mobius(self, pole, z0=None):
        """image under M(z) = z0 + (z-z0)(z0-p)/(z-p): identity to first order at z0, lines -> exact circular arcs,
        angles preserved, so the same tensions balance at every junction."""
        t = self.copy()
        if z0 is None:
            z0 = self.centroid()
        p = pole

        def M(z):
            return z0 + (z - z0) * (z0 - p) / (z - p)

        def dM(z):
            return (z0 - p) ** 2 / (z - p) ** 2

        newJ = {j: M(z) for j, z in self.J.items()}
        PHI = {}
        for k in self.E:
            a, b = self.ends(k)
            # straight segments only as source
            assert abs(self.PHI[k]) < 1e-13
            tang = dM(self.J[a]) * (self.J[b] - self.J[a])
            chord = newJ[b] - newJ[a]
            PHI[k] = float(np.angle(tang / chord))
        t.J, t.PHI = newJ, PHI
        t.sites = {}
        t.meta["mobius"] = True
        return t


# ---------------------------------------------------------------------------------------------------------
def _sites(rng, kind, n, box):
    if kind == "uniform":
        return rng.uniform(0, box, size=(n, 2))
    if kind == "hex":
        side = int(np.ceil(np.sqrt(n))) + 2
        s = box / side
        jit = rng.uniform(0.05, 0.25)
        pts = np.array([((i + 0.5 * (j % 2)) * s, (j * 0.866) * s) for i in range(-1, side + 2)
                        for j in range(-1, side + 3)])
        return pts + rng.normal(0, jit * s, pts.shape)
    if kind == "disc":   # Poisson-disc by dart throwing
        r = box / np.sqrt(n) * 0.75
        pts = []
        for _ in range(n * 40):
            p = rng.uniform(0, box, 2)
            if all((p[0] - q[0]) ** 2 + (p[1] - q[1]) ** 2 > r * r for q in pts):
                pts.append(p)
            if len(pts) >= n:
                break
        return np.array(pts)
    raise ValueError(kind)


def _with_block(rng, pts, box):
    """replace the sites inside a small rectangle by an exact square-lattice block: co-circular sites give Voronoi vertices of
    degree four (degenerate diagram), still in exact force balance with tension = site distance"""
    nx, ny = int(rng.integers(2, 4)), int(rng.integers(2, 4))
    a = box / np.sqrt(max(len(pts), 4)) * float(rng.uniform(0.8, 1.2))
    a = min(a, 0.45 * box / max(nx, ny))
    x0 = rng.uniform(0.2 * box, max(0.2 * box + 1e-9, 0.8 * box - nx * a))
    y0 = rng.uniform(0.2 * box, max(0.2 * box + 1e-9, 0.8 * box - ny * a))
    keep = [p for p in pts if not (x0 - a < p[0] < x0 + nx * a and y0 - a < p[1] < y0 + ny * a)]
    blk = [(x0 + i * a, y0 + j * a) for i in range(nx) for j in range(ny)]
    return np.array(keep + blk)


def _merge_coincident(vertices, regions_by_site, tol):
    """union Voronoi vertices that coincide (a degenerate diagram comes out of Qhull as several vertices at one place)"""
    n = len(vertices)
    parent = list(range(n))

    def find(x):
        while parent[x] != x:
            parent[x] = parent[parent[x]]
            x = parent[x]
        return x
    used = sorted({v for reg in regions_by_site.values() for v in reg})
    P = vertices[used]
    tree = sp.cKDTree(P)
    for i, j in tree.query_pairs(tol):
        ra, rb = find(used[i]), find(used[j])
        if ra != rb:
            parent[max(ra, rb)] = min(ra, rb)
    return find


def voronoi(rng, n=30, kind="uniform", box=10.0, margin=0.1, min_ridge_frac=0.01, tries=50, block=False):
    """bounded Voronoi tissue: the largest ridge-connected set of bounded regions that lie inside the box.
    block=True embeds an exact square-lattice block of sites (four-fold junctions)."""
    for attempt in range(tries):
        if attempt and attempt % 10 == 0:
            n += 2          # very small site sets rarely have three bounded regions inside the box
        pts = _sites(rng, kind, n, box)
        if block and len(pts) >= 8:
            pts = _with_block(rng, pts, box)
        if len(pts) < 5:
            continue
        vor = sp.Voronoi(pts)
        cells = {}
        for pi, ri in enumerate(vor.point_region):
            reg = vor.regions[ri]
            if len(reg) < 3 or -1 in reg:
                continue
            P = vor.vertices[reg]
            if (P < -margin * box).any() or (P > box * (1 + margin)).any():
                continue
            z = P[:, 0] + 1j * P[:, 1]
            s = complex(*pts[pi])
            order = np.argsort(np.angle(z - s))
            cells[pi] = [int(reg[i]) for i in order]
        if len(cells) < 3:
            continue
        find = None
        if block:
            find = _merge_coincident(vor.vertices, cells, 1e-9 * box)
            for c in list(cells):
                cyc = []
                for v in (find(x) for x in cells[c]):
                    if not cyc or cyc[-1] != v:
                        cyc.append(v)
                while len(cyc) > 1 and cyc[0] == cyc[-1]:
                    cyc.pop()
                cells[c] = cyc
        E = {}
        for c, cyc in cells.items():
            for a, b in zip(cyc, cyc[1:] + cyc[:1]):
                E.setdefault(frozenset((a, b)), []).append(c)
        used = {j for cyc in cells.values() for j in cyc}
        J = {j: complex(*vor.vertices[j]) for j in used}
        # truth tension of every ridge = distance of the two generating sites (also for ridges to dropped cells)
        T = {}
        for (p, q), rv in zip(vor.ridge_points, vor.ridge_vertices):
            if -1 in rv:
                continue
            k = frozenset(int(find(x)) if find else int(x) for x in rv)
            if len(k) == 2 and k in E:
                T[k] = float(np.linalg.norm(pts[p] - pts[q]))
        at = AT(J, E, cells, {c: complex(*pts[c]) for c in cells}, T)
        comp = max(at.components(), key=len)
        at = at.sub(comp)
        if len(at.cells) < 3:
            continue
        if at.min_ridge() < min_ridge_frac * box / np.sqrt(n):
            continue
        deg = [len(v) for v in at.jifaces().values()]
        if (not block and max(deg) > 3) or (block and (max(deg) > 4 or max(deg) < 4)):
            continue
        if any(k not in at.T for k in at.E if len(at.E[k]) == 2):
            continue
        at.meta.update(kind=kind, n=n, block=bool(block))
        return at
    raise RuntimeError("no tissue generated")


def random_mobius(rng, at, strength=None, max_phi=1.2, tries=40):
    """Moebius image with the pole outside the tissue; strength = tissue diameter / pole distance from centroid"""
    d = at.bbox_diam()
    c = at.centroid()
    zs = np.array(list(at.J.values()))
    rad = np.abs(zs - c).max()
    for _ in range(tries):
        s = strength if strength is not None else 10 ** rng.uniform(-6, 0)
        dist = max(d / s, rad * 1.25)
        pole = c + dist * np.exp(1j * rng.uniform(0, 2 * np.pi))
        t = at.mobius(pole, z0=c)
        if max(abs(v) for v in t.PHI.values()) <= max_phi:
            t.meta["strength"] = float(s)
            return t
        if strength is not None:
            strength = strength * 0.7
    return at.mobius(c + 1e6 * d, z0=c)


def bulge(rng, at, amp=0.3):
    """arbitrary (non-equilibrium) arc tissue: random bulge angle per interface"""
    t = at.copy()
    t.PHI = {k: float(rng.uniform(-amp, amp)) for k in at.E}
    t.meta["bulge"] = amp
    return t


def lattice(kind, nx, ny, a=1.0):
    """exactly axis-aligned lattices: 'square', 'brick' (T-junctions), 'hex'. cells counter-clockwise."""
    J, cells = {}, {}
    jid = {}

    def jn(x, y):
        key = (round(x, 9), round(y, 9))
        if key not in jid:
            jid[key] = len(jid)
            J[jid[key]] = complex(x, y)
        return jid[key]
    cid = 0
    if kind == "square":
        for i in range(nx):
            for j in range(ny):
                cells[cid] = [jn(i * a, j * a), jn((i + 1) * a, j * a), jn((i + 1) * a, (j + 1) * a), jn(i * a, (j + 1) * a)]
                cid += 1
    elif kind == "brick":
        for j in range(ny):
            off = 0.5 * a * (j % 2)
            for i in range(nx):
                x0, x1, y0, y1 = i * a + off, (i + 1) * a + off, j * a * 0.5, (j + 1) * a * 0.5
                cyc = [(x0, y0)]
                # T-junction points from the rows below and above lie on the horizontal sides
                xm = x0 + 0.5 * a
                if j > 0:
                    cyc.append((xm, y0))
                cyc += [(x1, y0), (x1, y1)]
                if j < ny - 1:
                    cyc.append((xm, y1))
                cyc.append((x0, y1))
                cells[cid] = [jn(*p) for p in cyc]
                cid += 1
    elif kind == "hex":
        h = np.sqrt(3) / 2 * a
        for i in range(nx):
            for j in range(ny):
                cx = i * 1.5 * a
                cy = j * 2 * h + (h if i % 2 else 0.0)
                cells[cid] = [jn(cx + a * np.cos(np.pi / 3 * k), cy + a * np.sin(np.pi / 3 * k)) for k in range(6)]
                cid += 1
    elif kind == "tri":
        # triangular lattice: interior vertices are six-fold junctions
        h = np.sqrt(3) / 2 * a
        for j in range(ny):
            for i in range(nx):
                x0 = (i + 0.5 * j) * a
                p00, p10 = (x0, j * h), (x0 + a, j * h)
                p01, p11 = (x0 + 0.5 * a, (j + 1) * h), (x0 + 1.5 * a, (j + 1) * h)
                cells[cid] = [jn(*p00), jn(*p10), jn(*p01)]
                cid += 1
                cells[cid] = [jn(*p10), jn(*p11), jn(*p01)]
                cid += 1
    elif kind == "fan":
        # nx + 3 sectors around one junction (a five- to ten-fold junction), with slightly unequal opening angles
        n = nx + 3
        ang = np.cumsum(1.0 + 0.3 * np.sin(1.7 * np.arange(n) + ny))
        ang = ang / ang[-1] * 2 * np.pi
        rim = [(a * np.cos(t), a * np.sin(t)) for t in ang]
        c0 = jn(0.0, 0.0)
        for i in range(n):
            cells[cid] = [c0, jn(*rim[i]), jn(*rim[(i + 1) % n])]
            cid += 1
    elif kind == "diamond":
        # square lattice along the diagonals, on integer multiples of a: every interface has the direction (1, 1) or
        # (1, -1) EXACTLY (components equal up to sign, bit for bit)
        for i in range(nx):
            for j in range(ny):
                x0, y0 = (i + j) * a, (i - j) * a
                cells[cid] = [jn(x0, y0), jn(x0 + a, y0 - a), jn(x0 + 2 * a, y0), jn(x0 + a, y0 + a)]
                cid += 1
    elif kind == "rosette":
        # one central cell ringed by n = nx cells (n three-fold junctions, 2n internal interfaces: a square force-balance
        # system; the central cell has n internal interfaces)
        n = nx
        ang = 2 * np.pi * (np.arange(n) + 0.1 * np.sin(1.3 * np.arange(n) + ny)) / n
        inner = [jn(a * np.cos(t), a * np.sin(t)) for t in ang]
        outer = [jn(2.2 * a * np.cos(t), 2.2 * a * np.sin(t)) for t in ang]
        cells[cid] = list(inner)
        cid += 1
        for i in range(n):
            cells[cid] = [inner[i], outer[i], outer[(i + 1) % n], inner[(i + 1) % n]]
            cid += 1
    else:
        raise ValueError(kind)
    E = {}
    for c, cyc in cells.items():
        for p, q in zip(cyc, cyc[1:] + cyc[:1]):
            E.setdefault(frozenset((p, q)), []).append(c)
    # brick lattices: the cycle of a cell may miss T-junction points created by neighbours generated later -> rebuild
    at = AT(J, E, cells, {}, {}, None, {"kind": "lat-" + kind})
    return at


def connected_subsets(at, max_cells=None):
    """all ridge-connected cell subsets (exhaustive; use on tissues with <= ~12 cells)"""
    ids = sorted(at.cells)
    adj = at.cell_adjacency()
    out = []
    n = len(ids)
    for mask in range(1, 1 << n):
        sub = [ids[i] for i in range(n) if mask >> i & 1]
        if max_cells and len(sub) > max_cells:
            continue
        s = set(sub)
        st, seen = [sub[0]], {sub[0]}
        while st:
            x = st.pop()
            for y in adj[x]:
                if y in s and y not in seen:
                    seen.add(y)
                    st.append(y)
        if len(seen) == len(s):
            out.append(sub)
    return out


def random_connected_subset(rng, at, size):
    adj = at.cell_adjacency()
    ids = sorted(at.cells)
    cur = {ids[rng.integers(len(ids))]}
    frontier = set(adj[next(iter(cur))])
    while len(cur) < size and frontier:
        f = sorted(frontier)
        x = f[rng.integers(len(f))]
        cur.add(x)
        frontier |= adj[x]
        frontier -= cur
    return sorted(cur)


def pendant_subset(rng, at, size):
    """an edge-connected cell subset plus ONE pendant cell that touches it in exactly one vertex and along no interface
    (its whole outline is one closed interface through a single junction).  Returns the id list or None."""
    core = set(random_connected_subset(rng, at, size))
    adj = at.cell_adjacency()
    cand = []
    for c, cyc in at.cells.items():
        if c in core or adj[c] & core:
            continue
        shared = {j for j in cyc if any(j in at.cells[d] for d in core)}
        if len(shared) == 1:
            cand.append(c)
    if not cand:
        return None
    cand.sort()
    return sorted(core | {cand[int(rng.integers(len(cand)))]})


def with_lens(rng, at, height=0.15):
    """a lens-shaped cell (exactly two junctions) inserted on an interface between two cells A and B: A keeps the (now
    bulged) interface a-b towards the lens, B gets the path a-m-b around it (m: a two-edge vertex).  Returns the new tissue
    or None.  Both ends of the old interface then belong to the same three cells."""
    jc = at.jcells()
    cand = [k for k, cs in at.E.items() if len(cs) == 2 and all(len(jc[j]) >= 3 for j in k)]
    if not cand:
        return None
    cand.sort(key=sorted)
    k = cand[int(rng.integers(len(cand)))]
    p, q = at.ends(k)
    A, B = at.E[k]
    cyc = at.cells[A]
    i = cyc.index(p)
    a_left = cyc[(i + 1) % len(cyc)] == q          # cells are counter-clockwise: A lies to the left of p -> q
    t = at.copy()
    u = (t.J[q] - t.J[p])
    L = abs(u)
    u = u / L
    side_b = (-1j if a_left else 1j) * u           # unit normal pointing into B
    m = max(t.J) + 1
    t.J[m] = 0.5 * (t.J[p] + t.J[q]) + side_b * height * L
    t.PHI[k] = 0.25 if a_left else -0.25          # bulge towards A (PHI > 0: to the left of min -> max)
    lens = max(t.cells) + 1
    t.E[k] = [A, lens]
    for kk in (frozenset((p, m)), frozenset((m, q))):
        t.E[kk] = [B, lens]
        t.PHI[kk] = 0.0
        t.T[kk] = t.T.get(k, 1.0)
    cb = t.cells[B]
    j = cb.index(q)                                 # in B's counter-clockwise cycle the interface runs q -> p
    assert cb[(j + 1) % len(cb)] == p or cb[(j - 1) % len(cb)] == p
    if cb[(j + 1) % len(cb)] == p:
        t.cells[B] = cb[:j + 1] + [m] + cb[j + 1:]
    else:
        jp = cb.index(p)
        t.cells[B] = cb[:jp + 1] + [m] + cb[jp + 1:]
    # lens counter-clockwise: along A's side it runs q -> p (A is on the other side), then p -> m -> q
    t.cells[lens] = [q, p, m] if a_left else [p, q, m]
    t.meta["lens"] = [sorted(k), m]
    return t


def with_wedge(rng, at, depth=0.2):
    """a small triangular cell wedged into the interface between two cells A and B, so that A and B share TWO separate
    interfaces (p-w1 and w2-q) with the wedge (w1, w2, w3) between them on B's side.  Returns the new tissue or None."""
    jc = at.jcells()
    cand = sorted((k for k, cs in at.E.items() if len(cs) == 2 and all(len(jc[j]) >= 3 for j in k)), key=sorted)
    if not cand:
        return None
    k = cand[int(rng.integers(len(cand)))]
    p, q = at.ends(k)
    A, B = at.E[k]
    cyc = at.cells[A]
    a_left = cyc[(cyc.index(p) + 1) % len(cyc)] == q
    t = at.copy()
    zp, zq = t.J[p], t.J[q]
    u = zq - zp
    L = abs(u)
    nB = (-1j if a_left else 1j) * u / L
    w1, w2, w3 = max(t.J) + 1, max(t.J) + 2, max(t.J) + 3
    t.J[w1], t.J[w2], t.J[w3] = zp + 0.35 * u, zp + 0.65 * u, zp + 0.5 * u + depth * L * nB
    W = max(t.cells) + 1
    tk = t.T.pop(k, 1.0)
    del t.E[k]
    del t.PHI[k]
    for key, cs in ((frozenset((p, w1)), [A, B]), (frozenset((w1, w2)), [A, W]), (frozenset((w2, q)), [A, B]),
                    (frozenset((w2, w3)), [B, W]), (frozenset((w3, w1)), [B, W])):
        t.E[key] = cs
        t.PHI[key] = 0.0
        t.T[key] = tk

    def splice(cycle, first, second, between):
        i = cycle.index(first)
        assert cycle[(i + 1) % len(cycle)] == second
        return cycle[:i + 1] + between + cycle[i + 1:]
    if a_left:
        t.cells[A] = splice(t.cells[A], p, q, [w1, w2])
        t.cells[B] = splice(t.cells[B], q, p, [w2, w3, w1])
        t.cells[W] = [w1, w3, w2]
    else:
        t.cells[A] = splice(t.cells[A], q, p, [w2, w1])
        t.cells[B] = splice(t.cells[B], p, q, [w1, w3, w2])
        t.cells[W] = [w1, w2, w3]
    t.meta["wedge"] = [sorted(k), [w1, w2, w3]]
    return t
