"""Realiser: abstract tissue -> the three forsys dictionaries (real Vertex / SmallEdge / Cell objects).

This is where labels, storage order, orientation, sampling density and spacing are chosen, so that one physical
tissue can be realised in many ways (G-LABEL, G-SAMPLE)."""
import numpy as np
from fv import env  # noqa: F401
from forsys import vertex as fvx, edge as fe, cell as fc


class R:
    pass


def _ks(at, k, rng):
    if isinstance(k, dict):
        return {key: int(k[key]) for key in at.E}
    if isinstance(k, (list, tuple)):          # random per interface in [lo, hi]
        lo, hi = k
        return {key: int(rng.integers(lo, hi + 1)) for key in sorted(at.E, key=sorted)}
    return {key: int(k) for key in at.E}


def realise(at, k=3, spacing="uniform", rng=None, relabel=False, shifts=False, flips=None, edge_dirs=False,
            cell_order=False, id_base=0, jitter=0.0, cell_id_base=0):
    """flips: None | 'random' | iterable of cell ids stored clockwise (reversed) | 'all'"""
    rng = rng if rng is not None else np.random.default_rng(0)
    ks = _ks(at, k, rng)
    # ---- abstract vertex list
    pos = []            # complex
    jidx = {}
    for j in sorted(at.J):
        jidx[j] = len(pos)
        pos.append(at.J[j])
    chain = {}
    for key in sorted(at.E, key=sorted):
        a, b = at.ends(key)
        n = ks[key]
        if spacing == "uniform" or n == 0:
            ss = np.linspace(0, 1, n + 2)[1:-1]
        else:
            ss = np.sort(rng.uniform(0.05, 0.95, n))
            # keep points distinct
            for _ in range(20):
                if n < 2 or np.min(np.diff(ss)) > 0.02 / n:
                    break
                ss = np.sort(rng.uniform(0.05, 0.95, n))
        ids = []
        for s in ss:
            ids.append(len(pos))
            z = at.arc_point(key, float(s))
            if jitter:
                # segmentation-like noise on the interior points (a fraction of the point spacing)
                z = z + jitter * at.arc_length(key) / (n + 1) * complex(*rng.normal(0, 1, 2))
            pos.append(z)
        chain[key] = [jidx[a]] + ids + [jidx[b]]
    nv = len(pos)
    # ---- labels
    if relabel:
        base = int(rng.integers(1, 50)) + id_base
        pool = rng.choice(np.arange(base, base + 3 * nv + 7), size=nv, replace=False)
        vlab = [int(x) for x in pool]
        vorder = [int(x) for x in rng.permutation(nv)]
        # id 0 is a valid id (and a falsy one): in a third of the renumbered meshes one vertex - mostly a junction - has it.
        # Decided from numbers already drawn, so that the random stream of the callers does not change.
        zr = np.random.default_rng([int(pool[0]), nv, 17])
        zero_ids = zr.random() < 0.35
        if zero_ids:
            nj = len(jidx)
            vlab[int(zr.integers(nj)) if zr.random() < 0.7 else int(zr.integers(nv))] = 0
        elif zr.random() < 0.12:
            # ids as a segmentation pipeline with global counters hands them out: far above the number of objects
            big = int(10 ** zr.uniform(5, 9))
            if zr.random() < 0.3:
                big = 2 ** 53 + int(zr.integers(1, 10 ** 6))      # beyond the integers a float64 can hold exactly
            vlab = [x + big for x in vlab]
    else:
        vlab = [i + id_base for i in range(nv)]
        vorder = list(range(nv))
    vertices = {}
    for i in vorder:
        vertices[vlab[i]] = fvx.Vertex(vlab[i], float(pos[i].real), float(pos[i].imag))
    segs = []
    for key, ch in chain.items():
        for p, q in zip(ch[:-1], ch[1:]):
            segs.append((key, p, q))
    ne = len(segs)
    if relabel:
        ebase = int(rng.integers(1, 30))
        elab = [int(x) for x in rng.choice(np.arange(ebase, ebase + 2 * ne + 5), size=ne, replace=False)]
        eorder = [int(x) for x in rng.permutation(ne)]
        if zero_ids and ne and zr.random() < 0.5:
            elab[int(zr.integers(ne))] = 0
    else:
        elab = list(range(ne))
        eorder = list(range(ne))
    edges = {}
    emap = {key: [] for key in chain}
    for i in eorder:
        key, p, q = segs[i]
        if edge_dirs and rng.random() < 0.5:
            p, q = q, p
        edges[elab[i]] = fe.SmallEdge(elab[i], vertices[vlab[p]], vertices[vlab[q]])
    for i, (key, p, q) in enumerate(segs):
        emap[key].append(elab[i])
    cids = sorted(at.cells)
    if relabel:
        cbase = int(rng.integers(1, 40))
        clab = {c: int(x) for c, x in zip(cids, rng.choice(np.arange(cbase, cbase + 3 * len(cids) + 3), size=len(cids),
                                                            replace=False))}
        if zero_ids and zr.random() < 0.5:
            clab[cids[int(zr.integers(len(cids)))]] = 0
    else:
        clab = {c: c for c in cids}
    if cell_id_base:
        clab = {c: (x + cell_id_base if x != 0 else 0) for c, x in clab.items()}
    corder = [cids[i] for i in rng.permutation(len(cids))] if cell_order else cids
    if flips == "random":
        flipset = {c for c in cids if rng.random() < 0.5}
    elif flips == "all":
        flipset = set(cids)
    elif flips is None:
        flipset = set()
    else:
        flipset = set(flips)
    cells = {}
    for c in corder:
        cyc = at.cells[c]
        vl = []
        for a, b in zip(cyc, cyc[1:] + cyc[:1]):
            key = frozenset((a, b))
            ch = chain[key]
            if ch[0] != jidx[a]:
                ch = ch[::-1]
            vl += ch[:-1]
        if shifts:
            s = int(rng.integers(len(vl)))
            vl = vl[s:] + vl[:s]
        if c in flipset:
            vl = vl[::-1]
        cells[clab[c]] = fc.Cell(clab[c], [vertices[vlab[i]] for i in vl])
    r = R()
    r.vertices, r.edges, r.cells = vertices, edges, cells
    r.jmap = {j: vlab[i] for j, i in jidx.items()}
    r.imap = {key: [vlab[i] for i in ch] for key, ch in chain.items()}
    r.emap = emap
    r.cmap = clab
    r.ks = ks
    r.flipset = flipset
    r.at = at
    return r
