"""Scenario builders shared by the inference properties: abstract tissue + pose + realisation from a case dict."""
import numpy as np
from fv.gen import tissue

KINDS = ["uniform", "hex", "disc"]


def base_tissue(rng, fam, ncells=None, max_phi=1.2):
    """fam: vor | mob | arc | lat-square | lat-brick | lat-hex | lat-tri (six-fold junctions) | lat-fan (one 5..8-fold junction)"""
    if fam.startswith("lat-"):
        kind = fam[4:]
        nx, ny = int(rng.integers(2, 6)), int(rng.integers(2, 6))
        if kind == "hex":
            nx, ny = int(rng.integers(2, 5)), int(rng.integers(2, 5))
        if kind == "rosette":
            nx = int(rng.integers(3, 12)) if rng.random() < 0.85 else int(rng.integers(128, 150))
        if kind == "diamond":
            return tissue.lattice(kind, nx, ny, a=float(2.0 ** rng.integers(-3, 4)))
        at = tissue.lattice(kind, nx, ny, a=float(10 ** rng.uniform(-1, 1)))
        return at
    n = ncells or int(rng.integers(8, 70))
    if fam in ("vor4", "mob4"):
        # equilibrium tissues WITH four-fold junctions: an exact square block of sites inside a random diagram
        at = tissue.voronoi(rng, n=max(n, 16), kind="uniform", block=True)
        if fam == "mob4":
            at = tissue.random_mobius(rng, at, strength=10 ** rng.uniform(-1.5, 0.5), max_phi=max_phi)
        return at
    at = tissue.voronoi(rng, n=n, kind=KINDS[int(rng.integers(3))])
    if fam == "mob":
        # half of the Moebius images clearly curved (turning 0.05..2 rad per interface), half from nearly straight on
        st = 10 ** (rng.uniform(-1.5, 0.8) if rng.random() < 0.5 else rng.uniform(-6, -1.5))
        at = tissue.random_mobius(rng, at, strength=st, max_phi=max_phi)
    elif fam == "arc":
        at = tissue.bulge(rng, at, float(rng.uniform(0.02, 0.6)))
    return at


def maybe_sub(rng, at, p=0.4, min_cells=3):
    if rng.random() < p and len(at.cells) > min_cells + 1:
        size = int(rng.integers(min_cells, len(at.cells)))
        return at.sub(tissue.random_connected_subset(rng, at, size)), True
    return at, False


def pose(rng, at, mode=None):
    """G-SIM. returns (tissue, description)"""
    mode = mode or ["id", "rot", "axis", "sim", "reflect", "scale"][int(rng.integers(6))]
    d = {"mode": mode}
    if mode == "id":
        return at, d
    if mode == "rot":
        th = float(rng.uniform(0, 2 * np.pi))
        d["theta"] = th
        return at.similarity(theta=th), d
    if mode == "axis":
        # put a chosen tangent within delta of a coordinate axis, on either side
        from fv.oracle import fb
        keys = fb.internal_keys(at)
        if not keys:
            return at, d
        k = keys[int(rng.integers(len(keys)))]
        j = sorted(k)[int(rng.integers(2))]
        t = at.tangent(k, j)
        delta = float(10 ** rng.uniform(-9, -1)) * (1 if rng.random() < 0.5 else -1)
        if rng.random() < 0.15:
            delta = 0.0
        target = [0, np.pi / 2, np.pi, -np.pi / 2][int(rng.integers(4))] + delta
        th = target - float(np.angle(t))
        d.update(theta=th, delta=delta)
        return at.similarity(theta=th), d
    if mode == "sim":
        sc = float(10 ** rng.uniform(-3, 3))
        th = float(rng.uniform(0, 2 * np.pi))
        sh = complex(*(rng.uniform(-1, 1, 2))) * at.bbox_diam() * sc * float(10 ** rng.uniform(0, 4))
        d.update(scale=sc, theta=th, shift=[sh.real, sh.imag])
        return at.similarity(scale=sc, theta=th, shift=sh), d
    if mode == "reflect":
        th = float(rng.uniform(0, 2 * np.pi))
        d.update(theta=th)
        return at.similarity(theta=th, reflect=True), d
    if mode == "scale":
        # other length units: micrometre-sized cells given in metres ... kilo-pixels
        u = rng.random()
        sc = float(10 ** (rng.uniform(-7, -5) if u < 0.4 else rng.uniform(2, 4) if u < 0.6 else rng.uniform(-5, 2)))
        d.update(scale=sc)
        return at.similarity(scale=sc), d
    raise ValueError(mode)


def first_segment(r, key, j):
    """vector (complex) from junction j to the next stored point of interface key, from the realised coordinates"""
    ch = r.imap[key]
    vj = r.jmap[j]
    a, b = (ch[0], ch[1]) if ch[0] == vj else (ch[-1], ch[-2])
    va, vb = r.vertices[a], r.vertices[b]
    return complex(vb.x - va.x, vb.y - va.y)


def physical_maps(r):
    """vertex-id path (either direction) -> physical key; junction vid -> jid"""
    pmap = {}
    for key, ch in r.imap.items():
        pmap[tuple(ch)] = key
        pmap[tuple(ch[::-1])] = key
    inv = {v: j for j, v in r.jmap.items()}
    return pmap, inv


def axis_segment(rng, at, r):
    """rotate the realised mesh (and the abstract tissue with it) so that the FIRST SEGMENT of a curved internal interface at one
    of its junctions is exactly parallel to a coordinate axis (the neighbouring point gets the junction's coordinate, a move
    of one rounding error).  Returns (rotated tissue, description) or (at, None) when no interface qualifies.  r is changed in
    place and keeps describing the rotated tissue."""
    from fv.oracle import fb
    cand = [k for k in fb.internal_keys(at, r.ks) if r.ks[k] >= 1 and abs(at.PHI[k]) > 1e-3]
    if not cand:
        return at, None
    k = cand[int(rng.integers(len(cand)))]
    j = sorted(k)[int(rng.integers(2))]
    seg = first_segment(r, k, j)
    axis = int(rng.integers(4))
    th = [0, np.pi / 2, np.pi, -np.pi / 2][axis] - float(np.angle(seg))
    f = np.exp(1j * th)
    for v in r.vertices.values():
        z = f * complex(v.x, v.y)
        v.x, v.y = float(z.real), float(z.imag)
    at2 = at.similarity(theta=th)
    r.at = at2
    ch = r.imap[k]
    vj = r.jmap[j]
    a, b = (ch[0], ch[1]) if ch[0] == vj else (ch[-1], ch[-2])
    if axis in (0, 2):
        r.vertices[b].y = r.vertices[a].y
    else:
        r.vertices[b].x = r.vertices[a].x
    return at2, {"key": sorted(k), "junction": j, "axis": axis, "theta": th}
