"""tools/seed_recheck.py [dir ...]  - re-run the property's quick check on every stored seeded mutation (scratch worktree) and
update check_result in its meta.json; prints a table.  Extra properties to try can be given in meta['also']."""
import json, os, re, subprocess, sys
root = "/verif/seeded"
dirs = sys.argv[1:] or sorted(os.listdir(root))
for d in dirs:
    p = os.path.join(root, d)
    meta = json.load(open(os.path.join(p, "meta.json")))
    ids = [meta["property"]] + meta.get("also", [])
    out = subprocess.run(["/verif/tools/mutcheck.sh", os.path.join(p, "patch.diff")] + ids, capture_output=True, text=True,
                         env=dict(os.environ, FV_JOBS=os.environ.get("FV_JOBS", "8"))).stdout
    res = {}
    for i in ids:
        m = re.search(rf"^{i} rc=(\d+)(.*)$", out, re.M)
        res[i] = {"exit": int(m.group(1)) if m else None, "mechanisms": (m.group(2).strip()[:300] if m else "")}
    meta["check_result"] = {"cmd": f"tools/mutcheck.sh seeded/{d}/patch.diff " + " ".join(ids), "by_property": res,
                            "caught": any(r["exit"] == 1 for r in res.values())}
    json.dump(meta, open(os.path.join(p, "meta.json"), "w"), indent=1)
    print(d, "CAUGHT" if meta["check_result"]["caught"] else "MISSED", {k: v["exit"] for k, v in res.items()})
