"""tools/mkpatch.py SPEC.py  - SPEC defines PATCHES = {"C05/name": [(file, old, new), ...]}; writes fv/selftest/<ID>/<name>.patch
using a scratch worktree of /repo (CRLF-safe)."""
import os, runpy, subprocess, sys
spec = runpy.run_path(sys.argv[1])["PATCHES"]
WT = f"/tmp/fvmk-{os.getpid()}"
subprocess.run(["git", "-C", "/repo", "worktree", "add", "-q", WT, "HEAD"], check=True)
try:
    for name, edits in spec.items():
        subprocess.run(["git", "-C", WT, "checkout", "--", "."], check=True)
        ok = True
        for f, old, new in edits:
            p = os.path.join(WT, f)
            raw = open(p, "rb").read().decode()
            if "\r\n" in raw:
                old = old.replace("\n", "\r\n"); new = new.replace("\n", "\r\n")
            if raw.count(old) != 1:
                print("!! cannot apply", name, f, raw.count(old)); ok = False; break
            open(p, "wb").write(raw.replace(old, new, 1).encode())
        if not ok:
            continue
        d = subprocess.run(["git", "-C", WT, "diff"], capture_output=True).stdout
        out = os.path.join("/verif/fv/selftest", name + ".patch")
        os.makedirs(os.path.dirname(out), exist_ok=True)
        open(out, "wb").write(d)
        print("wrote", out, len(d))
finally:
    subprocess.run(["git", "-C", "/repo", "worktree", "remove", "--force", WT])
