"""maintain KNOWN_FINDINGS.json:  kf.py known ID "C01,C02" "what"   |   kf.py fixed ID "C02" <commit> "what" """
import json, sys
p = "/verif/KNOWN_FINDINGS.json"
d = json.load(open(p))
kind, fid, props = sys.argv[1], sys.argv[2], sys.argv[3].split(",")
d["findings"] = [e for e in d["findings"] if e["id"] != fid]
if kind == "known":
    what = sys.argv[4]
    d["findings"].append({"id": fid, "properties": props, "mech": fid, "status": "known", "what": what})
else:
    commit, what = sys.argv[4], sys.argv[5]
    d["findings"].append({"id": fid, "properties": props, "mech": fid, "status": "fixed", "commit": commit, "what": what,
                          "line": "; ".join(f"fixed: property={q} {commit} {what}" for q in props)})
json.dump(d, open(p, "w"), indent=1)
