#!/bin/bash
# tools/mutcheck.sh <patch.diff> <ID> [<ID> ...]   - run checks against a scratch worktree of /repo with the patch applied.
# Evidence and replays of these runs go to a scratch directory; /repo and /verif/evidence are not touched.
set -u
PATCH="$(readlink -f "$1")"; shift
N=$$
WT=/tmp/fvmut-$N
OUT=/tmp/fvmut-out-$N
git -C /repo worktree add -q "$WT" HEAD || exit 3
if ! git -C "$WT" apply --whitespace=nowarn "$PATCH"; then echo "PATCH DOES NOT APPLY"; git -C /repo worktree remove --force "$WT"; exit 3; fi
mkdir -p "$OUT"
for id in "$@"; do
  FV_REPO="$WT" FV_OUT_DIR="$OUT" FV_JOBS="${FV_JOBS:-8}" /verif/check "$id" --tier "${TIER:-quick}" > "$OUT/$id.log" 2>&1
  rc=$?
  echo "$id rc=$rc $(grep -E '^unlisted' "$OUT/$id.log" | cut -c1-200)"
  [ $rc -ne 0 ] && grep -E "VIOLATION|INCONCLUSIVE|harness" "$OUT/$id.log" | head -3 | cut -c1-300
  grep -A1 "VIOLATION" "$OUT/$id.log" | grep "^  " | head -2 | cut -c1-400
done
git -C /repo worktree remove --force "$WT"
rm -rf "$OUT"
