"""tools/seed_summaries.py - (re)apply the one-line summaries of the round-3 seeded changes to their meta.json (idempotent)."""
import json, os
R3 = {
 "C01-r3-1": ("`get_versor_sign` no longer turns a zero sign into +1: a curved interface whose first segment is exactly axis-parallel loses the off-axis component of its tangent", ["C02"]),
 "C01-r3-2": ("junction-at-an-end condition dropped from `internal_big_edges`: outline-to-outline interfaces become dead columns", []),
 "C02-r3-1": ("`copy.copy` dropped in `get_angle_limited_edges`: a build with an excluding angle limit removes interfaces from the Frame for good", ["C16"]),
 "C02-r3-2": ("`connected != 4` instead of `< 4`: with `ignore_four` junctions of five or more interfaces keep their equations", []),
 "C03-r3-1": ("mean junction speed kept on the matrix object: a dimensional solve after an adimensional one divides by the stale value", []),
 "C03-r3-2": ("`if successor:` instead of `except KeyError`: a successor with vertex id 0 gives velocity zero", []),
 "C04-r3-1": ("pressure equations with a zero right-hand side dropped (straight / slack interfaces no longer impose equal pressures)", []),
 "C04-r3-2": ("pressure matrix cached per Frame object: a second pressure step after the tensions changed returns the first pressures", []),
 "C05-r3-1": ("`max_nfev=2000` for lmfit: large systems stop unconverged without a message", []),
 "C05-r3-2": ("`add_mean_one` and `add_mean_one_before` share one cache attribute keyed on the right-hand side", []),
 "C06-r3-1": ("machine epsilon added to the curvature denominator: pressures depend on the length unit", ["C04"]),
 "C06-r3-2": ("openings from `np.diff` of the sorted directions: the opening across the negative x axis is missed, exclusions depend on the pose", ["C16"]),
 "C07-r3-1": ("pressure-row orientation from an index comparison that forgets the vertex list is a cycle", []),
 "C07-r3-2": ("column found by 'contains the interface's second vertex' instead of two shared ids", []),
 "C08-r3-1": ("`get_external_edges_ids` returns the half predicate of the constructor", []),
 "C08-r3-2": ("class-level cache in `get_big_edge_by_cells`, shared by all frames", []),
 "C09-r3-1": ("`Cell.replace_vertex` de-duplicates against the predecessor only (forgets the cycle)", []),
 "C09-r3-2": ("isolated-cell removal deletes the edges of the open chain only: the closing edge survives with deleted end vertices (needs a free ring in the image)", []),
 "C10-r3-1": ("right-hand side vector allocated once per matrix object, not zeroed per call", []),
 "C10-r3-2": ("zeros for removed pressure columns re-inserted with one `np.insert` (two or more removed columns)", []),
 "C11-r3-1": ("closing vertex appended only if not yet present: a closed interface (cell with one junction) loses its end", []),
 "C11-r3-2": ("`get_unused_id` returns the base instead of the free id (gapped numbering)", []),
 "C12-r3-1": ("`mapping = initial_guess`: the user's dictionary is filled in place (one dictionary shared by all steps)", []),
 "C12-r3-2": ("nearest candidate by |dx|+|dy| instead of the Euclidean distance", []),
 "C13-r3-1": ("`if not partner:` - a tracked partner with id 0 counts as missing", []),
 "C13-r3-2": ("`get_system_velocity_per_frame` keeps a matrix built earlier (possibly with another angle limit)", []),
 "C14-r3-1": ("section boundaries cached per file name at module level (same path rewritten)", []),
 "C14-r3-2": ("`get_pressures` returns the bodies sorted by id while cells take them positionally", []),
 "C15-r3-1": ("`len(e) >= ne` in the resampler: an interface with exactly ne points gets its end junction twice", ["C11"]),
 "C15-r3-2": ("pixel hash keyed with the number of rows instead of columns (landscape images)", []),
 "C16-r3-1": ("opening always measured with the default `dlite` directions", []),
 "C16-r3-2": ("`deletes` is a class-level set shared by all matrices", []),
 "C17-r3-1": ("`image.convert('L')`: float and 16-bit images are clipped and truncated", []),
 "C17-r3-2": ("band and length cached on the interface keyed by `layers` only", []),
 "C18-r3-1": ("averaging radius from the mean of the cell radii instead of the radius of the mean area", []),
 "C18-r3-2": ("tangent always taken at `vertices[0]` (storage-direction dependent); no clause of C18 states storage independence", []),
 "C19-r3-1": ("vertex identity by `np.isclose` (relative tolerance): corners merge for centres far from the origin", []),
 "C19-r3-2": ("clockwise cells reversed in place in the caller's elements (second lattice from the same elements)", []),
 "C20-r3-1": ("`abs()` around `index - sign` in `get_previous_vertex` (first stored vertex, positive sign)", []),
 "C20-r3-2": ("`len(x) <= 3: return 0.0` in `get_area`: triangles get area 0", []),
}
for d, (summary, also) in R3.items():
    p = os.path.join("/verif/seeded", d, "meta.json")
    if not os.path.exists(p):
        print("missing", d)
        continue
    m = json.load(open(p))
    m["summary"] = summary
    if also:
        m["also"] = sorted(set(m.get("also", [])) | set(also))
    json.dump(m, open(p, "w"), indent=1)
