"""tools/seed_table.py [filter]  - markdown table of the stored seeded changes and which checks catch them (from meta.json)."""
import json, os, sys
root = "/verif/seeded"
flt = sys.argv[1] if len(sys.argv) > 1 else ""
print("| seeded change | what it does | caught by (mechanisms reported) |\n|---|---|---|")
for d in sorted(os.listdir(root)):
    if flt not in d:
        continue
    m = json.load(open(os.path.join(root, d, "meta.json")))
    by = m.get("check_result", {}).get("by_property", {})
    c = ", ".join(f"{k} ({v['mechanisms'][:90]})" for k, v in by.items() if v.get("exit") == 1) or "**not caught**"
    print(f"| {d} | {m.get('summary', '')} | {c} |")
