"""tools/seed_finish.py <dir> "<one-line summary>"  - give a change just stored by tools/seed_verify.sh its one-line summary and the
by_property form of its check result (parsed from the mutcheck output recorded by seed_verify.sh; nothing is re-run)."""
import json, os, re, sys
d, summary = sys.argv[1], sys.argv[2]
p = os.path.join("/verif/seeded", d, "meta.json")
meta = json.load(open(p))
meta["summary"] = summary
cr = meta.get("check_result", {})
if "by_property" not in cr:
    s = cr.get("summary", "")
    i = meta["property"]
    m = re.search(rf"{i} rc=(\d+)\s*(unlisted[^\]]*?\}})?", s)
    res = {i: {"exit": int(m.group(1)) if m else None, "mechanisms": (m.group(2) or "").strip()[:300] if m else ""}}
    meta["check_result"] = {"cmd": cr.get("cmd"), "by_property": res, "caught": any(r["exit"] == 1 for r in res.values()),
                            "raw": s}
json.dump(meta, open(p, "w"), indent=1)
print(d, meta["check_result"]["caught"], meta["check_result"]["by_property"])
