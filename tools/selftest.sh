#!/bin/bash
# tools/selftest.sh [ID ...]  - every patch under fv/selftest/<ID>/ must make ./check <ID> exit 1 (quick tier) on a scratch copy
cd /verif
ids="${@:-$(cd fv/selftest && ls -d C??)}"
fail=0
for id in $ids; do
  for p in fv/selftest/$id/*.patch; do
    out=$(FV_JOBS="${FV_JOBS:-6}" tools/mutcheck.sh "$p" "$id" 2>&1)
    rc=$(echo "$out" | grep -oE "^$id rc=[0-9]+" | head -1)
    if [ "$rc" = "$id rc=1" ]; then echo "CAUGHT  $p  $(echo "$out" | grep -oE 'unlisted.*' | head -1 | cut -c1-150)"; else echo "MISSED  $p  [$rc]"; fail=1; fi
  done
done
exit $fail
