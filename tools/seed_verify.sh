#!/bin/bash
# tools/seed_verify.sh <ID> <k>  - confirm a sub-agent mutation ($SRCROOT/<ID>/mut<k>.diff, default /tmp/mut2 + demo<k>.py) and run the property's check on it.
# Confirmed mutations are stored under /verif/seeded/<ID>-<k>/ (patch.diff, demo.py, meta.json). Scratch worktree is removed.
ID=$1; K=$2; SRC=${SRCROOT:-/tmp/mut2}/$ID
WT=/tmp/sv-$ID-$K
[ -f $SRC/mut$K.diff ] || { echo "$ID-$K: no patch"; exit 2; }
git -C /repo worktree add -q $WT HEAD || exit 3
cp $SRC/demo$K.py $WT/demo.py
( cd $WT && timeout 900 /venv/bin/python demo.py >/tmp/sv-$ID-$K.clean.log 2>&1 ); RC_CLEAN=$?
git -C $WT apply --whitespace=nowarn $SRC/mut$K.diff; APPLY=$?
( cd $WT && timeout 900 /venv/bin/python demo.py >/tmp/sv-$ID-$K.mut.log 2>&1 ); RC_MUT=$?
SUITE=$( cd $WT && env -u FORSYS_VERIF /venv/bin/python -m pytest -q -p no:cacheprovider --timeout=900 2>&1 | tail -1 )
git -C $WT checkout -q -- . ; rm -f $WT/demo.py
git -C /repo worktree remove --force $WT
CHECK=$( FV_JOBS=${FV_JOBS:-8} /verif/tools/mutcheck.sh $SRC/mut$K.diff $ID 2>&1 | head -4 | tr '\n' ' ' | cut -c1-700 )
CONF=no; [ $APPLY -eq 0 ] && [ $RC_CLEAN -eq 0 ] && [ $RC_MUT -ne 0 ] && echo "$SUITE" | grep -q "41 passed" && CONF=yes
echo "$ID-$K confirmed=$CONF apply=$APPLY demo_clean=$RC_CLEAN demo_mut=$RC_MUT suite=[$SUITE] check=[$CHECK]"
if [ $CONF = yes ]; then
  D=/verif/seeded/$ID-${SEEDTAG:-}$K; mkdir -p $D
  cp $SRC/mut$K.diff $D/patch.diff; cp $SRC/demo$K.py $D/demo.py
  /venv/bin/python - "$ID" "$K" "$RC_CLEAN" "$RC_MUT" "$SUITE" "$CHECK" "${SEEDTAG:-}" "$SRC" <<'PY'
import json,sys,re
ID,K,rc,rm,suite,check,tag,src=sys.argv[1:9]
md=open(f"{src}/MUTATIONS.md").read()
m=re.search(rf"{ID} rc=(\d+)",check)
json.dump({"property":ID,"mutation":int(K),"source":"independent sub-agent given only the property text and a scratch worktree",
 "description_by_author":md[:6000],
 "confirmed":{"demo_exit_clean":int(rc),"demo_exit_mutated":int(rm),"test_suite_with_mutation":suite,
   "how":"tools/seed_verify.sh: fresh worktree of /repo HEAD, demo on clean tree, git apply patch, demo again, unedited test-suite"},
 "check_result":{"cmd":f"tools/mutcheck.sh seeded/{ID}-{tag}{K}/patch.diff {ID}","exit":int(m.group(1)) if m else None,"summary":check}},
 open(f"/verif/seeded/{ID}-{tag}{K}/meta.json","w"),indent=1)
PY
fi
